#![no_main]
//! Coverage-guided driver: bytes are decoded into the same tape of blocks the proptest
//! driver generates (little-endian words, so that libFuzzer's integer mutations move one
//! choice), and the observer of the property named by ATSV_FUZZ_PROP judges the case.
use atsv::driver::{self, Known};
use atsv::exec::Prop;
use atsv::gen;
use libfuzzer_sys::fuzz_target;
use std::sync::OnceLock;

struct Ctx {
    prop: Prop,
    profile: gen::Profile,
    known: Known,
}
static CTX: OnceLock<Ctx> = OnceLock::new();

fn ctx() -> &'static Ctx {
    CTX.get_or_init(|| {
        // libFuzzer's hook aborts on any panic; contract traps are refusals, not crashes
        atsv::chain::silence_panics();
        let prop = std::env::var("ATSV_FUZZ_PROP").ok().and_then(|s| Prop::parse(&s)).unwrap_or(Prop::C01);
        Ctx { prop, profile: gen::profile(prop, true), known: Known::load() }
    })
}

fuzz_target!(|data: &[u8]| {
    let c = ctx();
    let tape = gen::tape_from_bytes(data);
    let r = driver::eval_case(c.prop, &c.profile, &tape);
    let unknown: Vec<_> = r.judge.violations.iter().filter(|v| !c.known.is_known(v)).cloned().collect();
    if !unknown.is_empty() {
        let path = driver::write_violation(c.prop, &r, &unknown, "libFuzzer");
        for v in &unknown {
            eprintln!("  [{}] step {}: {}", v.signature, v.step, v.detail);
        }
        eprintln!("ATSV-FUZZ-VIOLATION property={} replay={}", c.prop.id(), path);
        std::process::abort();
    }
});
