//! Concrete steps, the runner that executes them against the world, and the
//! independent bookkeeping (tracker) the observers rely on.

use crate::chain::{ask_key, bid_key, Kind, Outcome, Store, Tables, World, CONTRACT, KEY_VERSION_INFO};
use crate::model::{self, Expect, Req};
use crate::num::Dec;
use crate::props;
use crate::wire::{self, Ask, AskClass, Bid, BidV2, Book, Ev};
use cosmwasm_std::Int256;
use serde_json::{json, Value};
use std::collections::{BTreeMap, BTreeSet};

#[derive(Clone, Copy, PartialEq, Eq, Debug, PartialOrd, Ord)]
pub enum Prop {
    C01,
    C02,
    C03,
    C04,
    C05,
    C06,
    C07,
    C08,
    C09,
    C10,
    C11,
    C12,
    C13,
    C14,
    C15,
    C16,
    C17,
}

pub const ALL_PROPS: [Prop; 17] = [
    Prop::C01,
    Prop::C02,
    Prop::C03,
    Prop::C04,
    Prop::C05,
    Prop::C06,
    Prop::C07,
    Prop::C08,
    Prop::C09,
    Prop::C10,
    Prop::C11,
    Prop::C12,
    Prop::C13,
    Prop::C14,
    Prop::C15,
    Prop::C16,
    Prop::C17,
];

impl Prop {
    pub fn id(&self) -> &'static str {
        match self {
            Prop::C01 => "C01",
            Prop::C02 => "C02",
            Prop::C03 => "C03",
            Prop::C04 => "C04",
            Prop::C05 => "C05",
            Prop::C06 => "C06",
            Prop::C07 => "C07",
            Prop::C08 => "C08",
            Prop::C09 => "C09",
            Prop::C10 => "C10",
            Prop::C11 => "C11",
            Prop::C12 => "C12",
            Prop::C13 => "C13",
            Prop::C14 => "C14",
            Prop::C15 => "C15",
            Prop::C16 => "C16",
            Prop::C17 => "C17",
        }
    }
    pub fn parse(s: &str) -> Option<Prop> {
        ALL_PROPS.iter().copied().find(|p| p.id() == s)
    }
}

// ---------------------------------------------------------------- steps

#[derive(Clone, Debug, PartialEq)]
pub enum Step {
    Instantiate {
        sender: String,
        msg: Value,
    },
    Execute {
        sender: String,
        funds: Vec<(String, u128)>,
        msg: Value,
    },
    /// write an ask directly into storage under its own id (legacy un-hyphenated id),
    /// with the matching ledger credit, as an earlier contract version left it
    SeedAsk {
        ask: Ask,
    },
    SeedBid {
        bid: Bid,
    },
    /// overwrite (Some) or delete (None) the stored version record
    SetVersion {
        version: Option<String>,
        definition: String,
    },
    /// overwrite the raw version record with arbitrary bytes (unreadable record)
    RawVersion {
        raw: String,
    },
    /// rewrite the named bid in the legacy event-log format with this log; `event_base_denom`
    /// is the denomination written into the base coins of Fill / Reject events (older versions
    /// recorded convertible fills under the convertible denomination)
    ReencodeBid {
        id: String,
        events: Vec<Ev>,
        event_base_denom: Option<String>,
    },
    /// give the stored configuration a bound name, as instances created by early versions have
    SetBindName {
        bind_name: String,
    },
    Migrate {
        msg: Value,
    },
}

fn funds_json(f: &[(String, u128)]) -> Value {
    Value::Array(
        f.iter()
            .map(|(d, a)| json!([d, a.to_string()]))
            .collect(),
    )
}

fn ev_json(e: &Ev) -> Value {
    match e {
        Ev::Fill {
            base,
            fee,
            quote,
            price,
        } => json!({"fill": {"base": base.to_string(), "fee": fee.map(|x| x.to_string()), "quote": quote.to_string(), "price": price}}),
        Ev::Refund { fee, quote } => {
            json!({"refund": {"fee": fee.map(|x| x.to_string()), "quote": quote.to_string()}})
        }
        Ev::Reject { base, fee, quote } => json!({"reject": {"base": base.to_string(), "fee": fee.map(|x| x.to_string()), "quote": quote.to_string()}}),
    }
}

fn pn(v: &Value, k: &str) -> Result<u128, String> {
    v.get(k)
        .and_then(|x| x.as_str())
        .ok_or_else(|| format!("{} missing", k))?
        .parse()
        .map_err(|_| format!("{} not a number", k))
}
fn pon(v: &Value, k: &str) -> Result<Option<u128>, String> {
    match v.get(k) {
        None | Some(Value::Null) => Ok(None),
        Some(x) => Ok(Some(
            x.as_str()
                .ok_or_else(|| format!("{} not a string", k))?
                .parse()
                .map_err(|_| format!("{} not a number", k))?,
        )),
    }
}

fn ev_from(v: &Value) -> Result<Ev, String> {
    if let Some(f) = v.get("fill") {
        Ok(Ev::Fill {
            base: pn(f, "base")?,
            fee: pon(f, "fee")?,
            quote: pn(f, "quote")?,
            price: f
                .get("price")
                .and_then(|x| x.as_str())
                .unwrap_or("")
                .to_string(),
        })
    } else if let Some(f) = v.get("refund") {
        Ok(Ev::Refund {
            fee: pon(f, "fee")?,
            quote: pn(f, "quote")?,
        })
    } else if let Some(f) = v.get("reject") {
        Ok(Ev::Reject {
            base: pn(f, "base")?,
            fee: pon(f, "fee")?,
            quote: pn(f, "quote")?,
        })
    } else {
        Err("unknown event".into())
    }
}

impl Step {
    pub fn to_json(&self) -> Value {
        match self {
            Step::Instantiate { sender, msg } => {
                json!({"op": "instantiate", "sender": sender, "msg": msg})
            }
            Step::Execute { sender, funds, msg } => {
                json!({"op": "execute", "sender": sender, "funds": funds_json(funds), "msg": msg})
            }
            Step::SeedAsk { ask } => {
                let rec: Value = serde_json::from_slice(&wire::encode_ask(ask)).unwrap();
                json!({"op": "seed_ask", "record": rec})
            }
            Step::SeedBid { bid } => {
                let rec: Value = serde_json::from_slice(&wire::encode_bid(bid)).unwrap();
                json!({"op": "seed_bid", "record": rec})
            }
            Step::SetVersion {
                version,
                definition,
            } => json!({"op": "set_version", "version": version, "definition": definition}),
            Step::RawVersion { raw } => json!({"op": "raw_version", "raw": raw}),
            Step::ReencodeBid { id, events, event_base_denom } => {
                json!({"op": "reencode_bid", "id": id, "events": events.iter().map(ev_json).collect::<Vec<_>>(), "event_base_denom": event_base_denom})
            }
            Step::SetBindName { bind_name } => json!({"op": "set_bind_name", "bind_name": bind_name}),
            Step::Migrate { msg } => json!({"op": "migrate", "msg": msg}),
        }
    }

    pub fn from_json(v: &Value) -> Result<Step, String> {
        let op = v.get("op").and_then(|x| x.as_str()).ok_or("op missing")?;
        let st = |k: &str| -> Result<String, String> {
            v.get(k)
                .and_then(|x| x.as_str())
                .map(|x| x.to_string())
                .ok_or_else(|| format!("{} missing", k))
        };
        Ok(match op {
            "instantiate" => Step::Instantiate {
                sender: st("sender")?,
                msg: v.get("msg").cloned().ok_or("msg missing")?,
            },
            "execute" => {
                let mut funds = vec![];
                if let Some(a) = v.get("funds").and_then(|x| x.as_array()) {
                    for c in a {
                        let d = c.get(0).and_then(|x| x.as_str()).ok_or("funds denom")?;
                        let n: u128 = c
                            .get(1)
                            .and_then(|x| x.as_str())
                            .ok_or("funds amount")?
                            .parse()
                            .map_err(|_| "funds amount".to_string())?;
                        funds.push((d.to_string(), n));
                    }
                }
                Step::Execute {
                    sender: st("sender")?,
                    funds,
                    msg: v.get("msg").cloned().ok_or("msg missing")?,
                }
            }
            "seed_ask" => {
                let rec = v.get("record").ok_or("record missing")?;
                Step::SeedAsk {
                    ask: wire::decode_ask(&serde_json::to_vec(rec).unwrap())?,
                }
            }
            "seed_bid" => {
                let rec = v.get("record").ok_or("record missing")?;
                Step::SeedBid {
                    bid: wire::decode_bid_value(rec)?,
                }
            }
            "set_version" => Step::SetVersion {
                version: v
                    .get("version")
                    .and_then(|x| x.as_str())
                    .map(|x| x.to_string()),
                definition: v
                    .get("definition")
                    .and_then(|x| x.as_str())
                    .unwrap_or("ats_smart_contract")
                    .to_string(),
            },
            "raw_version" => Step::RawVersion { raw: st("raw")? },
            "reencode_bid" => {
                let mut events = vec![];
                for e in v
                    .get("events")
                    .and_then(|x| x.as_array())
                    .ok_or("events missing")?
                {
                    events.push(ev_from(e)?);
                }
                Step::ReencodeBid {
                    id: st("id")?,
                    events,
                    event_base_denom: v.get("event_base_denom").and_then(|x| x.as_str()).map(|x| x.to_string()),
                }
            }
            "set_bind_name" => Step::SetBindName { bind_name: st("bind_name")? },
            "migrate" => Step::Migrate {
                msg: v.get("msg").cloned().ok_or("msg missing")?,
            },
            other => return Err(format!("unknown op {}", other)),
        })
    }
}

// ---------------------------------------------------------------- violations

#[derive(Clone, Debug)]
pub struct Violation {
    pub prop: Prop,
    /// which clause of the statement fails (stable, structural)
    pub clause: &'static str,
    /// structural signature: clause + request kind + triggering state feature
    pub signature: String,
    pub detail: String,
    pub step: usize,
}

// ---------------------------------------------------------------- tracker

#[derive(Clone, Debug, Default)]
pub struct OrderTrack {
    /// denom -> received on the order's behalf minus paid on its behalf
    pub net: BTreeMap<String, Int256>,
    pub fund_calls: u32,
    pub partial_calls: u32,
    pub fills: u32,
    pub improved_fills: u32,
    pub partial_rejects: u32,
    pub non_lot_fills: u32,
    pub modified: u32,
    pub legacy: bool,
    /// asks: numeric ask-fee rate in force when the ask was recorded
    pub created_rate: Option<Dec>,
    /// bids: fee escrowed, fee paid to fee accounts, fee handed back (only when separable)
    pub fee_escrowed: u128,
    pub was_approved: bool,
    pub converted: bool,
    /// a match moved the same denomination on behalf of this order and of its counterpart,
    /// so per-order attribution of fund movements is no longer possible (two-order sum only)
    pub entangled: bool,
    pub entangle_count: u32,
    /// an accepted request on this order was outside the numerically decidable zone (a
    /// product beyond 96 bits / 28 digits): the order's later arithmetic gets no verdict
    pub tainted: bool,
    pub post_conversion_calls: u32,
    /// bids: the log an event-log (legacy) record of this bid would hold
    pub events: Vec<Ev>,
}

#[derive(Clone, Debug, Default)]
pub struct ShadowOrder {
    pub remaining: u128,
    pub approved: bool,
}

#[derive(Clone, Debug, Default)]
pub struct Shadow {
    pub asks: BTreeMap<String, ShadowOrder>,
    pub bids: BTreeMap<String, ShadowOrder>,
    pub partial_reversals: u32,
    pub closing_matches: u32,
    /// the shadow could not be advanced from attributes (a violation of C17 by itself)
    pub broken: Option<String>,
}

#[derive(Clone, Debug, Default)]
pub struct Tracker {
    pub asks: BTreeMap<String, OrderTrack>,
    pub bids: BTreeMap<String, OrderTrack>,
    pub closed_asks: BTreeSet<String>,
    pub closed_bids: BTreeSet<String>,
    /// market parameters at instantiation
    pub market: Option<(String, String, Vec<String>, Vec<String>, u128, u128)>,
    pub role_changes: u32,
    pub fee_account_changes: u32,
    pub modifies_accepted: u32,
    pub shadow: Shadow,
    pub accepted_calls: u32,
    pub probes: u64,
    /// (executors, approvers) as configured by the instantiate request and the accepted
    /// configuration requests since -- kept independently of what the contract stored
    pub configured_roles: Option<(Vec<String>, Vec<String>)>,
    /// the same, as in force before the latest accepted request
    pub roles_before_last_accepted: Option<(Vec<String>, Vec<String>)>,
    /// orders that by the reference model have left the book (completely filled, cancelled,
    /// expired or rejected) although an entry is still stored under their id
    pub zombie_asks: BTreeSet<String>,
    pub zombie_bids: BTreeSet<String>,
}

// ---------------------------------------------------------------- judge / runner

#[derive(Clone, Debug, Default)]
pub struct Counters {
    pub requests: u64,
    pub accepted: u64,
    pub refused: u64,
    pub panicked: u64,
    pub dispatch_failed: u64,
    pub out_of_zone: u64,
    pub probes: u64,
    pub known_excluded: u64,
}

pub struct Judge {
    pub prop: Prop,
    pub tracker: Tracker,
    pub violations: Vec<Violation>,
    pub labels: BTreeSet<&'static str>,
    pub nontrivial: bool,
    pub counters: Counters,
    /// evaluate expensive probes (sweeps / matrices); set per case by the driver
    pub probe_budget: u32,
    pub step_no: usize,
    /// per-case words for choosing what probes sample (from the tape, so deterministic)
    pub probe_seed: u64,
}

impl Judge {
    pub fn new(prop: Prop) -> Judge {
        Judge {
            prop,
            tracker: Tracker::default(),
            violations: vec![],
            labels: BTreeSet::new(),
            nontrivial: false,
            counters: Counters::default(),
            probe_budget: 6,
            step_no: 0,
            probe_seed: 0,
        }
    }
    pub fn violate(&mut self, prop: Prop, clause: &'static str, feature: &str, detail: String) {
        if prop != self.prop {
            return;
        }
        let signature = format!("{}|{}", clause, feature);
        // one report per structural signature and case
        if self.violations.iter().any(|v| v.signature == signature) {
            return;
        }
        self.violations.push(Violation {
            prop,
            clause,
            signature,
            detail,
            step: self.step_no,
        });
    }
    pub fn label(&mut self, l: &'static str) {
        self.labels.insert(l);
    }
    /// deterministic pseudo-random choice for probes, derived from the tape only
    pub fn pick(&mut self, n: usize) -> usize {
        if n == 0 {
            return 0;
        }
        self.probe_seed = self
            .probe_seed
            .wrapping_mul(6364136223846793005)
            .wrapping_add(1442695040888963407);
        ((self.probe_seed >> 33) as usize) % n
    }
}

pub struct StepView<'a> {
    pub world_before: &'a World,
    pub world_after: &'a World,
    pub before: &'a Book,
    pub after: &'a Book,
    pub sender: &'a str,
    pub funds: &'a [(String, u128)],
    pub req: &'a Req,
    pub msg: &'a Value,
    pub out: &'a Outcome,
    pub exp: &'a Expect,
}

pub struct Runner {
    pub world: World,
    pub judge: Judge,
    pub trace: Vec<Step>,
    pub tables_json: Value,
}

pub fn tables_to_json(t: &Tables) -> Value {
    let markers: serde_json::Map<String, Value> = t
        .markers
        .iter()
        .map(|(k, v)| {
            (
                k.clone(),
                json!(match v {
                    crate::chain::MarkerKind::Restricted => "restricted",
                    crate::chain::MarkerKind::Unrestricted => "unrestricted",
                    crate::chain::MarkerKind::NoMarker => "none",
                }),
            )
        })
        .collect();
    let attrs: serde_json::Map<String, Value> = t
        .attrs
        .iter()
        .map(|(k, v)| (k.clone(), json!(v)))
        .collect();
    json!({"markers": markers, "attrs": attrs, "marker_required_attrs": t.marker_required_attrs.iter().cloned().collect::<Vec<_>>(), "marker_status": t.marker_status})
}

pub fn tables_from_json(v: &Value) -> Tables {
    let mut t = Tables::default();
    if let Some(m) = v.get("markers").and_then(|x| x.as_object()) {
        for (k, x) in m {
            let kind = match x.as_str().unwrap_or("none") {
                "restricted" => crate::chain::MarkerKind::Restricted,
                "unrestricted" => crate::chain::MarkerKind::Unrestricted,
                _ => crate::chain::MarkerKind::NoMarker,
            };
            t.markers.insert(k.clone(), kind);
        }
    }
    if let Some(m) = v.get("marker_status").and_then(|x| x.as_object()) {
        for (d, st) in m {
            if let Some(n) = st.as_i64() {
                t.marker_status.insert(d.clone(), n as i32);
            }
        }
    }
    if let Some(a) = v.get("marker_required_attrs").and_then(|x| x.as_array()) {
        for d in a {
            if let Some(d) = d.as_str() {
                t.marker_required_attrs.insert(d.to_string());
            }
        }
    }
    if let Some(m) = v.get("attrs").and_then(|x| x.as_object()) {
        for (k, x) in m {
            t.attrs.insert(
                k.clone(),
                x.as_array()
                    .map(|a| {
                        a.iter()
                            .filter_map(|y| y.as_str().map(|z| z.to_string()))
                            .collect()
                    })
                    .unwrap_or_default(),
            );
        }
    }
    t
}

fn net_add(t: &mut OrderTrack, denom: &str, x: Int256) {
    let e = t.net.entry(denom.to_string()).or_insert_with(Int256::zero);
    *e += x;
}

impl Runner {
    pub fn new(prop: Prop, tables: Tables) -> Runner {
        let tables_json = tables_to_json(&tables);
        Runner {
            world: World::new(tables),
            judge: Judge::new(prop),
            trace: vec![],
            tables_json,
        }
    }

    pub fn book(&self) -> Book {
        wire::read_book(&self.world.store)
    }

    pub fn case_json(&self, note: &str) -> Value {
        json!({
            "format": 1,
            "note": note,
            "tables": self.tables_json,
            "steps": self.trace.iter().map(|s| s.to_json()).collect::<Vec<_>>(),
        })
    }

    pub fn step(&mut self, step: Step) -> Option<Outcome> {
        self.judge.step_no = self.trace.len();
        self.trace.push(step.clone());
        match step {
            Step::Instantiate { sender, msg } => {
                let bytes = serde_json::to_vec(&msg).unwrap();
                let out = self.world.instantiate(&sender, &bytes);
                self.count(&out);
                if out.accepted() {
                    let b = self.book();
                    if let Some(c) = &b.cfg {
                        self.judge.tracker.configured_roles = Some((c.executors.clone(), c.approvers.clone()));
                        self.judge.tracker.market = Some((
                            c.name.clone(),
                            c.base.clone(),
                            c.convertibles.clone(),
                            c.quotes.clone(),
                            c.precision,
                            c.increment,
                        ));
                    }
                }
                props::after_instantiate(&mut self.judge, &self.world, &sender, &msg, &out);
                Some(out)
            }
            Step::Execute { sender, funds, msg } => {
                let before = self.book();
                let world_before = self.world.clone();
                let req = Req::from_value(&msg);
                let exp = model::expect(
                    &model::Ctx {
                        book: &before,
                        tables: &self.world.tables,
                        sender: &sender,
                        funds: &funds,
                    },
                    &req,
                );
                if exp.zone.is_some() {
                    self.judge.counters.out_of_zone += 1;
                }
                let bytes = serde_json::to_vec(&msg).unwrap();
                let out = self.world.execute(&sender, &funds, &bytes);
                self.count(&out);
                let after = self.book();
                if out.accepted() {
                    self.track(&before, &after, &sender, &req, &out, &exp);
                    let (a_ids, b_ids) = req.named();
                    if b_ids.iter().any(|i| self.judge.tracker.bids.get(i).map(|x| x.fills >= 5).unwrap_or(false))
                        || a_ids.iter().any(|i| self.judge.tracker.asks.get(i).map(|x| x.fills >= 5).unwrap_or(false))
                    {
                        self.judge.label("order-filled-five-times-or-more");
                    }
                    if after.asks.len() >= 10 || after.bids.len() >= 10 {
                        self.judge.label("ten-or-more-open-orders-on-a-side");
                    }
                }
                let view = StepView {
                    world_before: &world_before,
                    world_after: &self.world,
                    before: &before,
                    after: &after,
                    sender: &sender,
                    funds: &funds,
                    req: &req,
                    msg: &msg,
                    out: &out,
                    exp: &exp,
                };
                props::observe(&mut self.judge, &view);
                Some(out)
            }
            Step::SeedAsk { ask } => {
                self.world.store.map.insert(ask_key(&ask.id), wire::encode_ask(&ask));
                self.world.seed_credit(&ask.owner, &ask.base, ask.size);
                let mut t = OrderTrack {
                    legacy: true,
                    ..Default::default()
                };
                net_add(&mut t, &ask.base, Int256::from(ask.size));
                if let AskClass::Ready {
                    approver,
                    denom,
                    amount,
                } = &ask.class
                {
                    self.world.seed_credit(approver, denom, *amount);
                    net_add(&mut t, denom, Int256::from(*amount));
                    t.was_approved = true;
                }
                self.judge.tracker.asks.insert(ask.id.clone(), t);
                self.judge.tracker.shadow.asks.insert(
                    ask.id.clone(),
                    ShadowOrder {
                        remaining: ask.size,
                        approved: matches!(ask.class, AskClass::Ready { .. }),
                    },
                );
                self.judge.label("seeded-legacy-id");
                None
            }
            Step::SeedBid { bid } => {
                self.world.store.map.insert(bid_key(&bid.id), wire::encode_bid(&bid));
                let held = bid.rem_quote().unwrap_or(0) + bid.rem_fee().unwrap_or(0);
                self.world.seed_credit(&bid.owner, &bid.quote_denom, held);
                let mut t = OrderTrack {
                    legacy: true,
                    fee_escrowed: bid.fee_amount(),
                    ..Default::default()
                };
                net_add(&mut t, &bid.quote_denom, Int256::from(held));
                self.judge.tracker.bids.insert(bid.id.clone(), t);
                self.judge.tracker.shadow.bids.insert(
                    bid.id.clone(),
                    ShadowOrder {
                        remaining: bid.rem_base().unwrap_or(0),
                        approved: false,
                    },
                );
                self.judge.label("seeded-legacy-id");
                None
            }
            Step::SetVersion {
                version,
                definition,
            } => {
                match version {
                    Some(v) => {
                        let rec = json!({"definition": definition, "version": v});
                        self.world
                            .store
                            .map
                            .insert(KEY_VERSION_INFO.to_vec(), serde_json::to_vec(&rec).unwrap());
                    }
                    None => {
                        self.world.store.map.remove(KEY_VERSION_INFO);
                    }
                }
                None
            }
            Step::RawVersion { raw } => {
                self.world
                    .store
                    .map
                    .insert(KEY_VERSION_INFO.to_vec(), raw.into_bytes());
                None
            }
            Step::SetBindName { bind_name } => {
                if let Some(raw) = self.world.store.map.get(crate::chain::KEY_CONTRACT_INFO).cloned() {
                    if let Ok(mut v) = serde_json::from_slice::<Value>(&raw) {
                        v["bind_name"] = json!(bind_name);
                        self.world
                            .store
                            .map
                            .insert(crate::chain::KEY_CONTRACT_INFO.to_vec(), serde_json::to_vec(&v).unwrap());
                    }
                }
                None
            }
            Step::ReencodeBid { id, events, event_base_denom } => {
                let b = self.book();
                if let Some(bid) = b.bids.get(&id) {
                    let v2 = BidV2 {
                        id: bid.id.clone(),
                        owner: bid.owner.clone(),
                        base_denom: bid.base_denom.clone(),
                        size: bid.size,
                        fee: bid.fee.clone(),
                        price: bid.price.clone(),
                        quote_denom: bid.quote_denom.clone(),
                        quote: bid.quote,
                        events,
                    };
                    self.world.store.map.insert(
                        bid_key(&id),
                        wire::encode_bid_v2_with(&v2, &bid.quote_denom, event_base_denom.as_deref()),
                    );
                }
                None
            }
            Step::Migrate { msg } => {
                let world_before = self.world.clone();
                let bytes = serde_json::to_vec(&msg).unwrap();
                let out = self.world.migrate(&bytes);
                self.count(&out);
                props::after_migrate(&mut self.judge, &world_before, &self.world, &msg, &out);
                if out.accepted() {
                    if let (Some((_, ap)), Some(x)) = (&mut self.judge.tracker.configured_roles, wire::CfgChange::from_value(&msg).approvers) {
                        *ap = x;
                    }
                    // bids converted by the migration keep their tracker entry
                    let after = self.book();
                    for id in after.bids.keys() {
                        if world_before_is_legacy(&world_before.store, id) {
                            if let Some(t) = self.judge.tracker.bids.get_mut(id) {
                                t.converted = true;
                            }
                        }
                    }
                }
                Some(out)
            }
        }
    }

    fn count(&mut self, out: &Outcome) {
        let c = &mut self.judge.counters;
        c.requests += 1;
        match out.kind {
            Kind::Accepted => c.accepted += 1,
            Kind::Refused => c.refused += 1,
            Kind::Panicked => c.panicked += 1,
            Kind::DispatchFailed => c.dispatch_failed += 1,
        }
    }

    /// Independent bookkeeping, advanced on every accepted execute call from the
    /// request, the fund movements and the response attributes only.
    fn track(
        &mut self,
        before: &Book,
        after: &Book,
        _sender: &str,
        req: &Req,
        out: &Outcome,
        exp: &Expect,
    ) {
        let t = &mut self.judge.tracker;
        t.accepted_calls += 1;
        t.roles_before_last_accepted = t.configured_roles.clone();
        let (ask_ids, bid_ids) = req.named();
        let moved = !out.moves.is_empty();
        // per-order attribution of the call's fund movements
        match req {
            Req::Match { ask_id, bid_id, .. } => {
                // quote movements belong to the bid, base / convertible movements to the ask
                let quote_denom = before.bids.get(bid_id).map(|b| b.quote_denom.clone());
                let overlap = match (before.asks.get(ask_id), before.bids.get(bid_id), &before.cfg) {
                    (Some(a), Some(b), Some(c)) => b.quote_denom == a.base || b.quote_denom == c.base,
                    _ => false,
                };
                if overlap {
                    let a = t.asks.entry(ask_id.clone()).or_default();
                    a.entangled = true;
                    a.entangle_count += 1;
                    let b = t.bids.entry(bid_id.clone()).or_default();
                    b.entangled = true;
                    b.entangle_count += 1;
                }
                for m in &out.moves {
                    let signed = if m.to == CONTRACT {
                        Int256::from(m.amount)
                    } else if m.from == CONTRACT {
                        -Int256::from(m.amount)
                    } else {
                        continue;
                    };
                    if Some(&m.denom) == quote_denom.as_ref() {
                        net_add(t.bids.entry(bid_id.clone()).or_default(), &m.denom, signed);
                    } else {
                        net_add(t.asks.entry(ask_id.clone()).or_default(), &m.denom, signed);
                    }
                }
            }
            Req::Modify(_) | Req::Unparsed => {}
            _ => {
                for m in &out.moves {
                    let signed = if m.to == CONTRACT {
                        Int256::from(m.amount)
                    } else if m.from == CONTRACT {
                        -Int256::from(m.amount)
                    } else {
                        continue;
                    };
                    for id in &ask_ids {
                        net_add(t.asks.entry(id.clone()).or_default(), &m.denom, signed);
                    }
                    for id in &bid_ids {
                        net_add(t.bids.entry(id.clone()).or_default(), &m.denom, signed);
                    }
                }
            }
        }
        // numeric reasons only: the statements' silence on other matters (an explicit zero fee, a
        // fee above the proceeds, a legal configuration change) does not disturb later arithmetic
        let numeric = |z: &str| ["not representable", "2^96", "exceeds u128", "too wide", "held fee below", "exceeds the unspent", "outside the grammar", "not an integer"].iter().any(|k| z.contains(k));
        let out_of_zone = exp.beyond96 || exp.zone.as_deref().map(numeric).unwrap_or(false);
        for id in &ask_ids {
            let e = t.asks.entry(id.clone()).or_default();
            if moved {
                e.fund_calls += 1;
            }
            e.modified += 1;
            e.tainted |= out_of_zone;
        }
        for id in &bid_ids {
            let e = t.bids.entry(id.clone()).or_default();
            if moved {
                e.fund_calls += 1;
            }
            e.modified += 1;
            e.tainted |= out_of_zone;
            if e.converted {
                e.post_conversion_calls += 1;
            }
        }
        match req {
            Req::CreateAsk { id, .. } => {
                let rate = before
                    .cfg
                    .as_ref()
                    .and_then(|c| model::rate_num(&c.ask_fee));
                let e = t.asks.entry(id.clone()).or_default();
                e.created_rate = rate;
            }
            Req::CreateBid { id, fee, .. } => {
                let e = t.bids.entry(id.clone()).or_default();
                e.fee_escrowed = fee.as_ref().map(|f| f.1).unwrap_or(0);
            }
            Req::ApproveAsk { id, .. } => {
                t.asks.entry(id.clone()).or_default().was_approved = true;
            }
            Req::RejectAsk { id, size } => {
                let e = t.asks.entry(id.clone()).or_default();
                if size.is_some() && after.asks.contains_key(id) {
                    e.partial_rejects += 1;
                    e.partial_calls += 1;
                }
            }
            Req::RejectBid { id, size } => {
                let e = t.bids.entry(id.clone()).or_default();
                if size.is_some() && after.bids.contains_key(id) {
                    e.partial_rejects += 1;
                    e.partial_calls += 1;
                }
            }
            Req::Match {
                ask_id,
                bid_id,
                size,
                ..
            } => {
                let inc = before.cfg.as_ref().map(|c| c.increment).unwrap_or(1).max(1);
                let improved = exp
                    .match_facts
                    .as_ref()
                    .map(|f| f.improved)
                    .unwrap_or(false);
                {
                    let e = t.asks.entry(ask_id.clone()).or_default();
                    e.fills += 1;
                    if after.asks.contains_key(ask_id) {
                        e.partial_calls += 1;
                    }
                    if size % inc != 0 {
                        e.non_lot_fills += 1;
                    }
                }
                {
                    let e = t.bids.entry(bid_id.clone()).or_default();
                    e.fills += 1;
                    if improved {
                        e.improved_fills += 1;
                    }
                    if after.bids.contains_key(bid_id) {
                        e.partial_calls += 1;
                    }
                    if size % inc != 0 {
                        e.non_lot_fills += 1;
                    }
                }
            }
            Req::Modify(ch) => {
                if let Some((ex, ap)) = &mut t.configured_roles {
                    if let Some(x) = &ch.executors {
                        *ex = x.clone();
                    }
                    if let Some(x) = &ch.approvers {
                        *ap = x.clone();
                    }
                }
                t.modifies_accepted += 1;
                if ch.approvers.is_some() || ch.executors.is_some() {
                    t.role_changes += 1;
                }
                if ch.ask_fee_account.is_some() || ch.bid_fee_account.is_some() {
                    t.fee_account_changes += 1;
                }
            }
            _ => {}
        }
        // the event log a legacy-format record would have accumulated
        for id in &bid_ids {
            if let Some(b0) = before.bids.get(id) {
                let (ab, aq, af) = match after.bids.get(id) {
                    Some(b1) => (b1.acc_base, b1.acc_quote, b1.acc_fee),
                    None => (b0.size, b0.quote, b0.fee_amount()),
                };
                let (db, dq, df) = (ab.saturating_sub(b0.acc_base), aq.saturating_sub(b0.acc_quote), af.saturating_sub(b0.acc_fee));
                let e = t.bids.entry(id.clone()).or_default();
                let feeo = |x: u128| if b0.fee.is_some() { Some(x) } else { None };
                match req {
                    Req::Match { price, .. } => {
                        let (gross, paid) = match exp.match_facts.as_ref() {
                            Some(f) if f.gross <= dq => (f.gross, df.min(exp.alts.first().map(|a| a.bid_fee_paid).unwrap_or(df))),
                            _ => (dq, df),
                        };
                        e.events.push(Ev::Fill { base: db, fee: feeo(paid), quote: gross, price: price.clone() });
                        if dq > gross || df > paid {
                            e.events.push(Ev::Refund { fee: feeo(df - paid), quote: dq - gross });
                        }
                    }
                    Req::CancelBid { .. } | Req::ExpireBid { .. } | Req::RejectBid { .. } => {
                        e.events.push(Ev::Reject { base: db, fee: feeo(df), quote: dq });
                    }
                    _ => {}
                }
            }
        }
        if exp.verdict == model::Verdict::Accept && !exp.alts.is_empty() {
            for id in &ask_ids {
                if after.asks.contains_key(id) && exp.alts.iter().all(|e| !e.asks.contains_key(id)) {
                    t.zombie_asks.insert(id.clone());
                }
            }
            for id in &bid_ids {
                if after.bids.contains_key(id) && exp.alts.iter().all(|e| !e.bids.contains_key(id)) {
                    t.zombie_bids.insert(id.clone());
                }
            }
        }
        t.zombie_asks.retain(|id| after.asks.contains_key(id));
        t.zombie_bids.retain(|id| after.bids.contains_key(id));
        for id in &ask_ids {
            if before.asks.contains_key(id) && !after.asks.contains_key(id) {
                t.closed_asks.insert(id.clone());
            }
        }
        for id in &bid_ids {
            if before.bids.contains_key(id) && !after.bids.contains_key(id) {
                t.closed_bids.insert(id.clone());
            }
        }
    }

    /// run a request on a copy of the world; the live world is untouched
    pub fn probe(&self, sender: &str, funds: &[(String, u128)], msg: &Value) -> (Outcome, World) {
        let mut w = self.world.clone();
        let out = w.execute(sender, funds, &serde_json::to_vec(msg).unwrap());
        (out, w)
    }
}

fn world_before_is_legacy(store: &Store, id: &str) -> bool {
    store
        .map
        .get(&bid_key(id))
        .map(|v| wire::is_v2_bid(v))
        .unwrap_or(false)
}
