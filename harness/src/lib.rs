pub mod chain;
pub mod exec;
pub mod model;
pub mod num;
pub mod pkg;
pub mod props;
pub mod wire;
