//! Harness-owned view of the JSON interface: request builders and decoders for
//! stored values / query results. Never uses the contract's own types.

use crate::chain::{Store, KEY_CONTRACT_INFO, KEY_VERSION_INFO};
use serde_json::{json, Map, Value};
use std::collections::BTreeMap;

// ---------------------------------------------------------------- records

#[derive(Clone, Debug, PartialEq, Eq)]
pub enum AskClass {
    Basic,
    Pending,
    Ready {
        approver: String,
        denom: String,
        amount: u128,
    },
}

#[derive(Clone, Debug, PartialEq, Eq)]
pub struct Ask {
    pub id: String,
    pub owner: String,
    pub class: AskClass,
    pub base: String,
    pub quote: String,
    pub price: String,
    pub size: u128,
}

#[derive(Clone, Debug, PartialEq, Eq)]
pub struct Bid {
    pub id: String,
    pub owner: String,
    pub base_denom: String,
    pub size: u128,
    pub acc_base: u128,
    pub acc_quote: u128,
    pub acc_fee: u128,
    pub fee: Option<(String, u128)>,
    pub price: String,
    pub quote_denom: String,
    pub quote: u128,
}

impl Bid {
    pub fn rem_base(&self) -> Option<u128> {
        self.size.checked_sub(self.acc_base)
    }
    pub fn rem_quote(&self) -> Option<u128> {
        self.quote.checked_sub(self.acc_quote)
    }
    pub fn fee_amount(&self) -> u128 {
        self.fee.as_ref().map(|f| f.1).unwrap_or(0)
    }
    pub fn rem_fee(&self) -> Option<u128> {
        match &self.fee {
            None => {
                if self.acc_fee == 0 {
                    Some(0)
                } else {
                    None
                }
            }
            Some((_, a)) => a.checked_sub(self.acc_fee),
        }
    }
}

/// A bid stored in the legacy (event log) format.
#[derive(Clone, Debug, PartialEq, Eq)]
pub struct BidV2 {
    pub id: String,
    pub owner: String,
    pub base_denom: String,
    pub size: u128,
    pub fee: Option<(String, u128)>,
    pub price: String,
    pub quote_denom: String,
    pub quote: u128,
    pub events: Vec<Ev>,
}

#[derive(Clone, Debug, PartialEq, Eq)]
pub enum Ev {
    Fill {
        base: u128,
        fee: Option<u128>,
        quote: u128,
        price: String,
    },
    Refund {
        fee: Option<u128>,
        quote: u128,
    },
    Reject {
        base: u128,
        fee: Option<u128>,
        quote: u128,
    },
}

#[derive(Clone, Debug, PartialEq, Eq)]
pub struct Cfg {
    pub name: String,
    pub bind_name: String,
    pub base: String,
    pub convertibles: Vec<String>,
    pub quotes: Vec<String>,
    pub approvers: Vec<String>,
    pub executors: Vec<String>,
    /// (account, rate string)
    pub ask_fee: Option<(String, String)>,
    pub bid_fee: Option<(String, String)>,
    pub ask_attrs: Vec<String>,
    pub bid_attrs: Vec<String>,
    pub precision: u128,
    pub increment: u128,
}

#[derive(Clone, Debug, PartialEq, Eq)]
pub struct Version {
    pub definition: String,
    pub version: String,
}

fn s(v: &Value, k: &str) -> Result<String, String> {
    v.get(k)
        .and_then(|x| x.as_str())
        .map(|x| x.to_string())
        .ok_or_else(|| format!("field {} missing or not a string", k))
}
fn n(v: &Value, k: &str) -> Result<u128, String> {
    v.get(k)
        .and_then(|x| x.as_str())
        .ok_or_else(|| format!("field {} missing or not a string", k))?
        .parse::<u128>()
        .map_err(|e| format!("field {}: {}", k, e))
}
fn strs(v: &Value, k: &str) -> Result<Vec<String>, String> {
    v.get(k)
        .and_then(|x| x.as_array())
        .ok_or_else(|| format!("field {} missing or not an array", k))?
        .iter()
        .map(|x| {
            x.as_str()
                .map(|y| y.to_string())
                .ok_or_else(|| format!("field {}: non-string element", k))
        })
        .collect()
}
fn coin(v: &Value) -> Result<(String, u128), String> {
    Ok((s(v, "denom")?, n(v, "amount")?))
}
fn opt_coin(v: &Value, k: &str) -> Result<Option<(String, u128)>, String> {
    match v.get(k) {
        None | Some(Value::Null) => Ok(None),
        Some(c) => Ok(Some(coin(c)?)),
    }
}

pub fn decode_ask(bytes: &[u8]) -> Result<Ask, String> {
    let v: Value = serde_json::from_slice(bytes).map_err(|e| e.to_string())?;
    let class = match v.get("class") {
        Some(Value::String(x)) if x == "Basic" => AskClass::Basic,
        Some(Value::Object(o)) => {
            let c = o
                .get("Convertible")
                .ok_or_else(|| "class: unknown variant".to_string())?;
            match c.get("status") {
                Some(Value::String(x)) if x == "PendingIssuerApproval" => AskClass::Pending,
                Some(Value::Object(so)) => {
                    let r = so
                        .get("Ready")
                        .ok_or_else(|| "status: unknown variant".to_string())?;
                    let (denom, amount) = coin(
                        r.get("converted_base")
                            .ok_or_else(|| "converted_base missing".to_string())?,
                    )?;
                    AskClass::Ready {
                        approver: s(r, "approver")?,
                        denom,
                        amount,
                    }
                }
                _ => return Err("status malformed".into()),
            }
        }
        _ => return Err("class malformed".into()),
    };
    Ok(Ask {
        id: s(&v, "id")?,
        owner: s(&v, "owner")?,
        class,
        base: s(&v, "base")?,
        quote: s(&v, "quote")?,
        price: s(&v, "price")?,
        size: n(&v, "size")?,
    })
}

pub fn decode_bid(bytes: &[u8]) -> Result<Bid, String> {
    let v: Value = serde_json::from_slice(bytes).map_err(|e| e.to_string())?;
    decode_bid_value(&v)
}

pub fn decode_bid_value(v: &Value) -> Result<Bid, String> {
    let (base_denom, size) = coin(v.get("base").ok_or("base missing")?)?;
    let (quote_denom, quote) = coin(v.get("quote").ok_or("quote missing")?)?;
    Ok(Bid {
        id: s(v, "id")?,
        owner: s(v, "owner")?,
        base_denom,
        size,
        acc_base: n(v, "accumulated_base")?,
        acc_quote: n(v, "accumulated_quote")?,
        acc_fee: n(v, "accumulated_fee")?,
        fee: opt_coin(v, "fee")?,
        price: s(v, "price")?,
        quote_denom,
        quote,
    })
}

pub fn is_v2_bid(bytes: &[u8]) -> bool {
    match serde_json::from_slice::<Value>(bytes) {
        Ok(v) => v.get("events").is_some(),
        Err(_) => false,
    }
}

pub fn decode_bid_v2(bytes: &[u8]) -> Result<BidV2, String> {
    let v: Value = serde_json::from_slice(bytes).map_err(|e| e.to_string())?;
    let (base_denom, size) = coin(v.get("base").ok_or("base missing")?)?;
    let (quote_denom, quote) = coin(v.get("quote").ok_or("quote missing")?)?;
    let mut events = vec![];
    for e in v
        .get("events")
        .and_then(|x| x.as_array())
        .ok_or("events missing")?
    {
        let a = e.get("action").ok_or("action missing")?;
        let fee_of = |x: &Value| -> Result<Option<u128>, String> {
            Ok(opt_coin(x, "fee")?.map(|c| c.1))
        };
        if let Some(f) = a.get("Fill") {
            events.push(Ev::Fill {
                base: coin(f.get("base").ok_or("base")?)?.1,
                fee: fee_of(f)?,
                quote: coin(f.get("quote").ok_or("quote")?)?.1,
                price: s(f, "price")?,
            });
        } else if let Some(f) = a.get("Refund") {
            events.push(Ev::Refund {
                fee: fee_of(f)?,
                quote: coin(f.get("quote").ok_or("quote")?)?.1,
            });
        } else if let Some(f) = a.get("Reject") {
            events.push(Ev::Reject {
                base: coin(f.get("base").ok_or("base")?)?.1,
                fee: fee_of(f)?,
                quote: coin(f.get("quote").ok_or("quote")?)?.1,
            });
        } else {
            return Err("unknown action".into());
        }
    }
    Ok(BidV2 {
        id: s(&v, "id")?,
        owner: s(&v, "owner")?,
        base_denom,
        size,
        fee: opt_coin(&v, "fee")?,
        price: s(&v, "price")?,
        quote_denom,
        quote,
        events,
    })
}

fn fee_info(v: &Value, k: &str) -> Result<Option<(String, String)>, String> {
    match v.get(k) {
        None | Some(Value::Null) => Ok(None),
        Some(f) => Ok(Some((s(f, "account")?, s(f, "rate")?))),
    }
}

pub fn decode_cfg(bytes: &[u8]) -> Result<Cfg, String> {
    let v: Value = serde_json::from_slice(bytes).map_err(|e| e.to_string())?;
    Ok(Cfg {
        name: s(&v, "name")?,
        bind_name: s(&v, "bind_name")?,
        base: s(&v, "base_denom")?,
        convertibles: strs(&v, "convertible_base_denoms")?,
        quotes: strs(&v, "supported_quote_denoms")?,
        approvers: strs(&v, "approvers")?,
        executors: strs(&v, "executors")?,
        ask_fee: fee_info(&v, "ask_fee_info")?,
        bid_fee: fee_info(&v, "bid_fee_info")?,
        ask_attrs: strs(&v, "ask_required_attributes")?,
        bid_attrs: strs(&v, "bid_required_attributes")?,
        precision: n(&v, "price_precision")?,
        increment: n(&v, "size_increment")?,
    })
}

pub fn decode_version(bytes: &[u8]) -> Result<Version, String> {
    let v: Value = serde_json::from_slice(bytes).map_err(|e| e.to_string())?;
    Ok(Version {
        definition: s(&v, "definition")?,
        version: s(&v, "version")?,
    })
}

// ---------------------------------------------------------------- the book, read from raw storage

#[derive(Clone, Debug, Default, PartialEq, Eq)]
pub struct Book {
    /// keyed by the id *as it appears in the storage key*
    pub asks: BTreeMap<String, Ask>,
    pub bids: BTreeMap<String, Bid>,
    pub legacy_bids: BTreeMap<String, BidV2>,
    pub cfg: Option<Cfg>,
    pub version: Option<Version>,
    /// keys that are neither of the four kinds
    pub unknown_keys: Vec<Vec<u8>>,
    /// (key, why) for entries of a known kind that do not decode
    pub undecodable: Vec<(Vec<u8>, String)>,
}

pub fn read_book(store: &Store) -> Book {
    let mut b = Book::default();
    for (k, v) in &store.map {
        if k.starts_with(b"\x00\x03ask") {
            let id = String::from_utf8_lossy(&k[5..]).to_string();
            match decode_ask(v) {
                Ok(a) => {
                    b.asks.insert(id, a);
                }
                Err(e) => b.undecodable.push((k.clone(), e)),
            }
        } else if k.starts_with(b"\x00\x03bid") {
            let id = String::from_utf8_lossy(&k[5..]).to_string();
            if is_v2_bid(v) {
                match decode_bid_v2(v) {
                    Ok(x) => {
                        b.legacy_bids.insert(id, x);
                    }
                    Err(e) => b.undecodable.push((k.clone(), e)),
                }
            } else {
                match decode_bid(v) {
                    Ok(x) => {
                        b.bids.insert(id, x);
                    }
                    Err(e) => b.undecodable.push((k.clone(), e)),
                }
            }
        } else if k.as_slice() == KEY_CONTRACT_INFO {
            match decode_cfg(v) {
                Ok(c) => b.cfg = Some(c),
                Err(e) => b.undecodable.push((k.clone(), e)),
            }
        } else if k.as_slice() == KEY_VERSION_INFO {
            match decode_version(v) {
                Ok(c) => b.version = Some(c),
                Err(e) => b.undecodable.push((k.clone(), e)),
            }
        } else {
            b.unknown_keys.push(k.clone());
        }
    }
    b
}

// ---------------------------------------------------------------- request builders

pub fn num(x: u128) -> Value {
    Value::String(x.to_string())
}

pub fn m_create_ask(id: &str, base: &str, quote: &str, price: &str, size: u128) -> Value {
    json!({"create_ask": {"id": id, "base": base, "quote": quote, "price": price, "size": num(size)}})
}

pub fn m_create_bid(
    id: &str,
    base: &str,
    fee: Option<(&str, u128)>,
    price: &str,
    quote: &str,
    quote_size: u128,
    size: u128,
) -> Value {
    let mut o = Map::new();
    o.insert("id".into(), json!(id));
    o.insert("base".into(), json!(base));
    if let Some((d, a)) = fee {
        o.insert("fee".into(), json!({"denom": d, "amount": num(a)}));
    }
    o.insert("price".into(), json!(price));
    o.insert("quote".into(), json!(quote));
    o.insert("quote_size".into(), num(quote_size));
    o.insert("size".into(), num(size));
    json!({ "create_bid": Value::Object(o) })
}

pub fn m_approve_ask(id: &str, base: &str, size: u128) -> Value {
    json!({"approve_ask": {"id": id, "base": base, "size": num(size)}})
}
pub fn m_cancel_ask(id: &str) -> Value {
    json!({"cancel_ask": {"id": id}})
}
pub fn m_cancel_bid(id: &str) -> Value {
    json!({"cancel_bid": {"id": id}})
}
pub fn m_expire_ask(id: &str) -> Value {
    json!({"expire_ask": {"id": id}})
}
pub fn m_expire_bid(id: &str) -> Value {
    json!({"expire_bid": {"id": id}})
}
pub fn m_reject_ask(id: &str, size: Option<u128>) -> Value {
    match size {
        Some(x) => json!({"reject_ask": {"id": id, "size": num(x)}}),
        None => json!({"reject_ask": {"id": id}}),
    }
}
pub fn m_reject_bid(id: &str, size: Option<u128>) -> Value {
    match size {
        Some(x) => json!({"reject_bid": {"id": id, "size": num(x)}}),
        None => json!({"reject_bid": {"id": id}}),
    }
}
pub fn m_match(ask_id: &str, bid_id: &str, price: &str, size: u128) -> Value {
    json!({"execute_match": {"ask_id": ask_id, "bid_id": bid_id, "price": price, "size": num(size)}})
}

/// Fields of a ModifyContract / MigrateMsg request; None = omitted.
#[derive(Clone, Debug, Default, PartialEq, Eq)]
pub struct CfgChange {
    pub approvers: Option<Vec<String>>,
    pub executors: Option<Vec<String>>,
    pub ask_fee_rate: Option<String>,
    pub ask_fee_account: Option<String>,
    pub bid_fee_rate: Option<String>,
    pub bid_fee_account: Option<String>,
    pub ask_attrs: Option<Vec<String>>,
    pub bid_attrs: Option<Vec<String>>,
}

impl CfgChange {
    fn fields(&self, with_executors: bool) -> Map<String, Value> {
        let mut o = Map::new();
        if let Some(x) = &self.approvers {
            o.insert("approvers".into(), json!(x));
        }
        if with_executors {
            if let Some(x) = &self.executors {
                o.insert("executors".into(), json!(x));
            }
        }
        if let Some(x) = &self.ask_fee_rate {
            o.insert("ask_fee_rate".into(), json!(x));
        }
        if let Some(x) = &self.ask_fee_account {
            o.insert("ask_fee_account".into(), json!(x));
        }
        if let Some(x) = &self.bid_fee_rate {
            o.insert("bid_fee_rate".into(), json!(x));
        }
        if let Some(x) = &self.bid_fee_account {
            o.insert("bid_fee_account".into(), json!(x));
        }
        if let Some(x) = &self.ask_attrs {
            o.insert("ask_required_attributes".into(), json!(x));
        }
        if let Some(x) = &self.bid_attrs {
            o.insert("bid_required_attributes".into(), json!(x));
        }
        o
    }
    pub fn to_modify(&self) -> Value {
        json!({ "modify_contract": Value::Object(self.fields(true)) })
    }
    pub fn to_migrate(&self) -> Value {
        Value::Object(self.fields(false))
    }
    pub fn from_value(v: &Value) -> CfgChange {
        let os = |k: &str| v.get(k).and_then(|x| x.as_str()).map(|x| x.to_string());
        let ol = |k: &str| {
            v.get(k).and_then(|x| x.as_array()).map(|a| {
                a.iter()
                    .map(|y| y.as_str().unwrap_or("").to_string())
                    .collect::<Vec<_>>()
            })
        };
        CfgChange {
            approvers: ol("approvers"),
            executors: ol("executors"),
            ask_fee_rate: os("ask_fee_rate"),
            ask_fee_account: os("ask_fee_account"),
            bid_fee_rate: os("bid_fee_rate"),
            bid_fee_account: os("bid_fee_account"),
            ask_attrs: ol("ask_required_attributes"),
            bid_attrs: ol("bid_required_attributes"),
        }
    }
}

pub fn q_get_ask(id: &str) -> Value {
    json!({"get_ask": {"id": id}})
}
pub fn q_get_bid(id: &str) -> Value {
    json!({"get_bid": {"id": id}})
}
pub fn q_contract_info() -> Value {
    json!({"get_contract_info": {}})
}
pub fn q_version_info() -> Value {
    json!({"get_version_info": {}})
}

// ---------------------------------------------------------------- legacy encoders (for seeding / re-encoding)

pub fn enc_coin(denom: &str, amount: u128) -> Value {
    json!({"denom": denom, "amount": num(amount)})
}

pub fn encode_ask(a: &Ask) -> Vec<u8> {
    let class = match &a.class {
        AskClass::Basic => json!("Basic"),
        AskClass::Pending => json!({"Convertible": {"status": "PendingIssuerApproval"}}),
        AskClass::Ready {
            approver,
            denom,
            amount,
        } => json!({"Convertible": {"status": {"Ready": {"approver": approver, "converted_base": enc_coin(denom, *amount)}}}}),
    };
    // field order as the contract's struct declares it
    let mut o = Map::new();
    o.insert("id".into(), json!(a.id));
    o.insert("owner".into(), json!(a.owner));
    o.insert("class".into(), class);
    o.insert("base".into(), json!(a.base));
    o.insert("quote".into(), json!(a.quote));
    o.insert("price".into(), json!(a.price));
    o.insert("size".into(), num(a.size));
    serde_json::to_vec(&Value::Object(o)).unwrap()
}

pub fn encode_bid(b: &Bid) -> Vec<u8> {
    let mut o = Map::new();
    o.insert("base".into(), enc_coin(&b.base_denom, b.size));
    o.insert("accumulated_base".into(), num(b.acc_base));
    o.insert("accumulated_quote".into(), num(b.acc_quote));
    o.insert("accumulated_fee".into(), num(b.acc_fee));
    o.insert(
        "fee".into(),
        match &b.fee {
            Some((d, a)) => enc_coin(d, *a),
            None => Value::Null,
        },
    );
    o.insert("id".into(), json!(b.id));
    o.insert("owner".into(), json!(b.owner));
    o.insert("price".into(), json!(b.price));
    o.insert("quote".into(), enc_coin(&b.quote_denom, b.quote));
    serde_json::to_vec(&Value::Object(o)).unwrap()
}

pub fn encode_bid_v2(b: &BidV2, quote_denom_for_fee: &str) -> Vec<u8> {
    encode_bid_v2_with(b, quote_denom_for_fee, None)
}

pub fn encode_bid_v2_with(b: &BidV2, quote_denom_for_fee: &str, event_base_denom: Option<&str>) -> Vec<u8> {
    let ebd = event_base_denom.unwrap_or(&b.base_denom);
    let fee_v = |f: &Option<u128>| match f {
        Some(a) => enc_coin(quote_denom_for_fee, *a),
        None => Value::Null,
    };
    let block = json!({"height": 12345u64, "time": "1571797419879305533"});
    let events: Vec<Value> = b
        .events
        .iter()
        .map(|e| {
            let action = match e {
                Ev::Fill {
                    base,
                    fee,
                    quote,
                    price,
                } => json!({"Fill": {"base": enc_coin(ebd, *base), "fee": fee_v(fee), "price": price, "quote": enc_coin(&b.quote_denom, *quote)}}),
                Ev::Refund { fee, quote } => {
                    json!({"Refund": {"fee": fee_v(fee), "quote": enc_coin(&b.quote_denom, *quote)}})
                }
                Ev::Reject { base, fee, quote } => json!({"Reject": {"base": enc_coin(ebd, *base), "fee": fee_v(fee), "quote": enc_coin(&b.quote_denom, *quote)}}),
            };
            json!({"action": action, "block_info": block})
        })
        .collect();
    let mut o = Map::new();
    o.insert("base".into(), enc_coin(&b.base_denom, b.size));
    o.insert("events".into(), Value::Array(events));
    o.insert(
        "fee".into(),
        match &b.fee {
            Some((d, a)) => enc_coin(d, *a),
            None => Value::Null,
        },
    );
    o.insert("id".into(), json!(b.id));
    o.insert("owner".into(), json!(b.owner));
    o.insert("price".into(), json!(b.price));
    o.insert("quote".into(), enc_coin(&b.quote_denom, b.quote));
    serde_json::to_vec(&Value::Object(o)).unwrap()
}
