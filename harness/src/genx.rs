//! The two other case shapes: instantiate messages (C13) and histories followed by
//! a version rewrite, legacy re-encoding and migration (C14 / C15).

use crate::chain::Kind;
use crate::exec::{Prop, Runner, Step};
use crate::gen::{self, build_world, gate, pick, weighted, Interp, Profile, Tape, POOL, WORLD_WORDS};
use crate::model::{self, Ctx, Req, Verdict};
use crate::num::{parse, Parsed};
use crate::props::migrate::{classify, VersionClass};
use crate::wire::{self, CfgChange, Ev};
use serde_json::{json, Value};

// ---------------------------------------------------------------- C13

const BAD_ADDRS: [&str; 5] = ["", "ab", "UPPERCASE", "Mixed1", "x"];
const BAD_RATES: [&str; 6] = ["abc", "1e5", "1,5", "1..2", " 1", "."];

/// one instantiate message from a world block: a coherent message with 0..2 faults
pub fn instantiate_msg(w: &[u32; WORLD_WORDS], p: &Profile) -> Value {
    let spec = build_world(w, p);
    let mut m = spec.instantiate.as_object().unwrap().clone();
    // precision / increment around each power of ten
    if gate(w[20], 500) {
        let prec = pick(w[21], 20) as u32;
        let p10 = 10u128.pow(prec);
        let inc = match pick(w[22], 9) {
            0 => p10,
            1 => p10 * 2,
            2 => p10 * 10,
            3 => p10 + 1,
            4 => p10.saturating_sub(1),
            5 => p10 / 10,
            6 => 0,
            7 => 1,
            8 if w[23] & 1 == 0 => 1 + (w[23] % 100_000) as u128,
            _ => p10 * (1 + (w[23] % 1000) as u128),
        };
        m.insert("price_precision".into(), json!(prec.to_string()));
        m.insert("size_increment".into(), json!(inc.to_string()));
    }
    let nf = weighted(w[24], &[35, 45, 20]);
    for i in 0..nf {
        let fw = w[25 + i];
        let sel = w[27 + i];
        match pick(fw, 16) {
            0 => {
                m.insert("name".into(), json!(""));
            }
            1 => {
                m.insert("base_denom".into(), json!(""));
            }
            2 => {
                m.insert("supported_quote_denoms".into(), json!([]));
            }
            3 => {
                m.insert("executors".into(), json!([]));
            }
            4 => {
                m.insert("approvers".into(), json!([]));
            }
            5 => {
                m.insert("executors".into(), json!([BAD_ADDRS[pick(sel, 5)]]));
            }
            6 => {
                m.insert("approvers".into(), json!([POOL[1], BAD_ADDRS[pick(sel, 5)]]));
            }
            7 | 8 => {
                let side = if pick(fw, 16) == 7 { "ask" } else { "bid" };
                // rate in {absent, empty, valid, unparsable} x account in {absent, empty, valid, invalid}
                let r = pick(sel, 4);
                let a = pick(sel.rotate_left(11), 4);
                m.remove(&format!("{}_fee_rate", side));
                m.remove(&format!("{}_fee_account", side));
                match r {
                    0 => {}
                    1 => {
                        m.insert(format!("{}_fee_rate", side), json!(""));
                    }
                    2 => {
                        m.insert(format!("{}_fee_rate", side), json!("0.02"));
                    }
                    _ => {
                        m.insert(format!("{}_fee_rate", side), json!(BAD_RATES[pick(sel.rotate_left(5), 6)]));
                    }
                }
                match a {
                    0 => {}
                    1 => {
                        m.insert(format!("{}_fee_account", side), json!(""));
                    }
                    2 => {
                        m.insert(format!("{}_fee_account", side), json!(POOL[4]));
                    }
                    _ => {
                        m.insert(format!("{}_fee_account", side), json!(BAD_ADDRS[1 + pick(sel.rotate_left(7), 4)]));
                    }
                }
            }
            9 => {
                m.insert("price_precision".into(), json!((19 + pick(sel, 8)).to_string()));
            }
            10 => {
                m.insert("size_increment".into(), json!("0"));
            }
            11 => {
                let keys = ["name", "base_denom", "supported_quote_denoms", "executors", "approvers", "price_precision", "size_increment", "convertible_base_denoms", "ask_required_attributes", "bid_required_attributes"];
                m.remove(keys[pick(sel, keys.len())]);
            }
            12 => {
                m.insert("convertible_base_denoms".into(), json!([]));
                // a name that is not empty, only unusual: coherent
                m.insert("name".into(), json!([" ", "\t", "a b", "Ünïcode"][pick(sel, 4)]));
            }
            13 => {
                m.insert("ask_fee_rate".into(), json!("-0.01"));
                m.insert("ask_fee_account".into(), json!(POOL[5]));
            }
            14 => {
                m.insert("bid_fee_rate".into(), json!("+.5"));
                m.insert("bid_fee_account".into(), json!(POOL[6]));
            }
            _ => {
                m.insert("executors".into(), json!([POOL[0], POOL[0], POOL[7]]));
            }
        }
    }
    Value::Object(m)
}

/// run one instantiate message under C13 and, when accepted, the integrality consequence
pub fn run_instantiate(msg: &Value, tables: crate::chain::Tables, w: &[u32; WORLD_WORDS], p: &Profile) -> Runner {
    let mut r = Runner::new(Prop::C13, tables);
    let out = r.step(Step::Instantiate {
        sender: "admin".into(),
        msg: msg.clone(),
    });
    let verdict = crate::props::config::coherent(msg);
    match &verdict {
        Some(Ok(())) => r.judge.label("coherent"),
        Some(Err(_)) => r.judge.label("incoherent"),
        None => r.judge.label("no-verdict"),
    }
    if matches!(&verdict, Some(Err(why)) if !why.contains(';')) {
        r.judge.label("single-fault");
        r.judge.nontrivial = true;
    }
    if out.map(|o| o.kind == Kind::Accepted).unwrap_or(false) {
        r.judge.nontrivial = true;
        // consequence: admissible price x admissible size is an integer and the contract
        // admits the corresponding ask and bid
        let book = r.book();
        if let Some(cfg) = book.cfg.clone() {
            let spec = build_world(w, p);
            let mut spec2 = spec.clone();
            spec2.precision = cfg.precision as u32;
            spec2.increment = cfg.increment;
            spec2.tables = r.world.tables.clone();
            let mut prof = p.clone();
            prof.fault = 0;
            for k in 0..6usize {
                let mut op = [0u32; gen::OP_WORDS];
                for (i, o) in op.iter_mut().enumerate() {
                    *o = w[(7 * k + 3 * i + 1) % WORLD_WORDS].rotate_left((5 * k + i) as u32) ^ (0x9e3779b9u32.wrapping_mul((k * 13 + i) as u32 + 1));
                }
                op[6] = 0;
                let book = r.book();
                // force the kind
                let mut pr2 = prof.clone();
                pr2.kinds = [0; gen::N_KINDS];
                pr2.kinds[if k % 2 == 0 { gen::K_CREATE_ASK } else { gen::K_CREATE_BID }] = 1;
                let mut it = Interp::new(&pr2, spec2.clone());
                it.next_ask = 1 + k as u64;
                it.next_bid = 1 + k as u64;
                if let Some(Step::Execute { sender, funds, msg }) = it.concretise(&op, &book) {
                    let req = Req::from_value(&msg);
                    let exp = model::expect(
                        &Ctx {
                            book: &book,
                            tables: &r.world.tables,
                            sender: &sender,
                            funds: &funds,
                        },
                        &req,
                    );
                    // integrality, exactly
                    let (price, size) = match &req {
                        Req::CreateAsk { price, size, .. } => (price.clone(), *size),
                        Req::CreateBid { price, size, .. } => (price.clone(), *size),
                        _ => continue,
                    };
                    if let Parsed::Num(pd) = parse(&price) {
                        if !pd.mul_u128(size).is_integer() {
                            r.judge.violate(
                                Prop::C13,
                                "integrality",
                                "admissible-pair",
                                format!("precision {} increment {}: admissible price {} x size {} is not an integer", cfg.precision, cfg.increment, price, size),
                            );
                        }
                    }
                    let (o, _) = r.probe(&sender, &funds, &msg);
                    r.judge.counters.probes += 1;
                    if exp.verdict == Verdict::Accept && !o.accepted() {
                        r.judge.violate(
                            Prop::C13,
                            "admissible-order-refused",
                            req.kind(),
                            format!("accepted configuration {:?} refuses admissible order {}: {:?} {}", cfg, msg, o.kind, o.why),
                        );
                    }
                    if exp.verdict == Verdict::Accept {
                        // keep it on the book so that later probes see a non-empty book
                        r.step(Step::Execute { sender, funds, msg });
                    }
                }
            }
        }
    }
    r
}

/// the exhaustive grids of DESIGN section 4 / C13
pub fn c13_grid(p: &Profile) -> Vec<Value> {
    let mut out = vec![];
    let w = [0u32; WORLD_WORDS];
    let base = build_world(&w, p).instantiate;
    for prec in 0u32..=19 {
        let p10 = 10u128.pow(prec);
        let mut incs = vec![p10.saturating_sub(1), p10, p10 + 1, p10 * 2, p10 / 10, p10 * 10, 0, 1, p10 * 7, p10 * 10 + 10u128.pow(prec.saturating_sub(1))];
        // divisors and near-divisors of the power of ten, powers of two and five, small numbers
        incs.extend([2, 3, 4, 5, 8, 12, 16, 25, 64, 125, p10 / 2, p10 / 5, p10 / 4, p10 * 3 / 2, 2u128.pow(prec), 5u128.pow(prec), 2u128.pow(prec) * 3, p10 + p10 / 2, p10 + p10 / 10]);
        incs.sort();
        incs.dedup();
        for inc in incs {
            let mut m = base.as_object().unwrap().clone();
            m.insert("price_precision".into(), json!(prec.to_string()));
            m.insert("size_increment".into(), json!(inc.to_string()));
            out.push(Value::Object(m));
        }
    }
    // fee pairs: rate x account, both sides: 16 x 16
    let rates: [Option<&str>; 4] = [None, Some(""), Some("0.02"), Some("abc")];
    let accts: [Option<&str>; 4] = [None, Some(""), Some("acct4"), Some("ab")];
    for ar in 0..4 {
        for aa in 0..4 {
            for br in 0..4 {
                for ba in 0..4 {
                    let mut m = base.as_object().unwrap().clone();
                    for k in ["ask_fee_rate", "ask_fee_account", "bid_fee_rate", "bid_fee_account"] {
                        m.remove(k);
                    }
                    if let Some(x) = rates[ar] {
                        m.insert("ask_fee_rate".into(), json!(x));
                    }
                    if let Some(x) = accts[aa] {
                        m.insert("ask_fee_account".into(), json!(x));
                    }
                    if let Some(x) = rates[br] {
                        m.insert("bid_fee_rate".into(), json!(x));
                    }
                    if let Some(x) = accts[ba] {
                        m.insert("bid_fee_account".into(), json!(x));
                    }
                    out.push(Value::Object(m));
                }
            }
        }
    }
    out
}

// ---------------------------------------------------------------- C14 / C15

const VERSIONS: [&str; 27] = [
    "0.16.2", "0.19.0", "0.19.1", "0.16.1", "0.16.3", "0.19.2", "0.18.2", "0.17.0", "0.15.0", "0.14.9", "0.15.1", "1.0.0", "0.9.0", "2.3.4", "0.16.10", "0.20.0", "0.2.99", "garbage", "", "one.two.three", "1.0.0.0.x", "v1.0.0",
    "0.16.2-rc.1", "0.16.2-alpha", "0.16.1+build5", "0.15.9-rc1", "0.16.2-0",
];

fn split3(total: u128, w: u32, parts: usize) -> Vec<u128> {
    // split `total` into `parts` non-negative summands, deterministically from w
    let mut out = vec![];
    let mut left = total;
    let mut x = w as u64 | 1;
    for i in 0..parts {
        if i + 1 == parts {
            out.push(left);
        } else {
            x = x.wrapping_mul(6364136223846793005).wrapping_add(1442695040888963407);
            let take = if left == 0 { 0 } else { ((x >> 33) as u128 * (left + 1)) >> 31 };
            let take = take.min(left);
            out.push(take);
            left -= take;
        }
    }
    out
}

fn migrate_msg(w: &[u32; WORLD_WORDS], cfg: &wire::Cfg, allow_invalid: bool) -> Value {
    let mut ch = CfgChange::default();
    let sel = w[23];
    if gate(w[22], 700) {
        if sel & 1 != 0 {
            let mut v = cfg.approvers.clone();
            match pick(w[24], 4) {
                0 => v.push(POOL[pick(w[25], 8)].to_string()),
                1 => v = vec![POOL[pick(w[25], 8)].to_string()],
                2 => v = vec![],
                _ => {
                    if allow_invalid {
                        v.push("BAD".to_string())
                    } else {
                        v.reverse()
                    }
                }
            }
            ch.approvers = Some(v);
        }
        for (side, bit) in [("ask", 2u32), ("bid", 4u32)] {
            if sel & bit != 0 {
                let current = if side == "ask" { &cfg.ask_fee } else { &cfg.bid_fee };
                let (r, a): (Option<String>, Option<String>) = match (pick(w[26].rotate_left(bit), 8), current) {
                    // the installed rate in another spelling, with a different account
                    (6, Some((acc, rate))) | (7, Some((acc, rate))) => {
                        let other = POOL.iter().find(|x| **x != acc.as_str()).unwrap().to_string();
                        let spelled = if rate.contains('.') { format!("{}0", rate) } else { format!("{}.0", rate) };
                        (Some(spelled), Some(other))
                    }
                    (k, _) => match k % 6 {
                    0 => (Some(["0.03", ".03", "+0.03", "00.03"][pick(w[26].rotate_left(13), 4)].into()), Some(POOL[5].to_string())),
                    1 => (Some(String::new()), Some(String::new())),
                    2 => (Some("0.0125".into()), Some(POOL[6].to_string())),
                    3 if allow_invalid => (Some("0.03".into()), None),
                    4 if allow_invalid => (Some("abc".into()), Some(POOL[5].to_string())),
                    5 if allow_invalid => (Some("0.03".into()), Some("X".into())),
                    _ => (Some("0".into()), Some(POOL[3].to_string())),
                    },
                };
                if side == "ask" {
                    ch.ask_fee_rate = r;
                    ch.ask_fee_account = a;
                } else {
                    ch.bid_fee_rate = r;
                    ch.bid_fee_account = a;
                }
            }
        }
        if sel & 8 != 0 {
            ch.ask_attrs = Some(if sel & 64 != 0 {
                vec![]
            } else if sel & 256 != 0 {
                vec!["ask.kyc".into(), "".into()]
            } else {
                vec!["ask.kyc".into(), "ask.extra".into()]
            });
        }
        if sel & 16 != 0 {
            ch.bid_attrs = Some(if sel & 128 != 0 {
                vec![]
            } else if sel & 512 != 0 {
                vec!["".into()]
            } else {
                vec!["bid.kyc".into()]
            });
        }
    }
    ch.to_migrate()
}

/// A history, then version rewrite, optional legacy re-encoding, migration (observed by
/// C14 or C15), and for C15 a differential continuation against the never-converted twin.
pub fn run_migration(prop: Prop, p: &Profile, tape: &Tape) -> Runner {
    let mut r = gen::run_history(prop, p, tape);
    let w = &tape.world;
    let book = r.book();
    let cfg = match &book.cfg {
        Some(c) => c.clone(),
        None => return r,
    };
    // version
    let like_c15 = matches!(prop, Prop::C15 | Prop::C09 | Prop::C01);
    let vw = if like_c15 {
        // mostly inside the conversion window
        weighted(w[20], &[30, 25, 8, 2, 15, 4, 10, 6])
    } else {
        pick(w[20], VERSIONS.len() + 2)
    };
    // legacy re-encoding of some open bids
    let reencode = like_c15 || gate(w[21], 400);
    let mut reenc_steps = vec![];
    if reencode {
        let mask = w[21] | if like_c15 { 1 } else { 0 };
        for (i, (id, bid)) in book.bids.iter().enumerate() {
            if (mask >> (i % 32)) & 1 == 0 {
                continue;
            }
            let tracked: Vec<Ev> = r.judge.tracker.bids.get(id).map(|t| t.events.clone()).unwrap_or_default();
            let sums_ok = {
                let v2 = wire::BidV2 {
                    id: String::new(),
                    owner: String::new(),
                    base_denom: String::new(),
                    size: 0,
                    fee: None,
                    price: String::new(),
                    quote_denom: String::new(),
                    quote: 0,
                    events: tracked.clone(),
                };
                crate::props::migrate::sums(&v2) == (bid.acc_base, bid.acc_quote, bid.acc_fee)
            };
            let from_reality = sums_ok && w[27] & (1 << (i % 32)) == 0;
            if from_reality {
                r.judge.label("log-from-real-history");
            } else {
                r.judge.label("log-arbitrary-split");
            }
            let events: Vec<Ev> = if from_reality {
                tracked
            } else {
                // an arbitrary consistent log with the same sums
                let n = 1 + pick(w[28].rotate_left(i as u32), 5);
                let bs = split3(bid.acc_base, w[28] ^ i as u32, n);
                let qs = split3(bid.acc_quote, w[29] ^ i as u32, n);
                let fs = split3(bid.acc_fee, w[30] ^ i as u32, n);
                let mut ev = vec![];
                let mut carry_base = 0u128;
                for k in 0..n {
                    let fee = if bid.fee.is_some() { Some(fs[k]) } else { None };
                    match (w[29].rotate_left((3 * k + i) as u32)) % 3 {
                        0 => ev.push(Ev::Fill { base: bs[k] + carry_base, fee, quote: qs[k], price: bid.price.clone() }),
                        1 => {
                            // a refund carries no base: hand its share to the next event
                            ev.push(Ev::Refund { fee, quote: qs[k] });
                            carry_base += bs[k];
                            continue;
                        }
                        _ => ev.push(Ev::Reject { base: bs[k] + carry_base, fee, quote: qs[k] }),
                    }
                    carry_base = 0;
                }
                if carry_base > 0 {
                    ev.push(Ev::Reject { base: carry_base, fee: None, quote: 0 });
                }
                ev
            };
            // the denomination written into the events' base coins: the bid's own, or (as old
            // versions did for fills of convertible asks) another one
            let ebd = match pick(w[27].rotate_left(5 + i as u32), 4) {
                0 => cfg.convertibles.first().cloned(),
                1 => Some("legacy.base".to_string()),
                _ => None,
            };
            reenc_steps.push(Step::ReencodeBid { id: id.clone(), events, event_base_denom: ebd });
        }
    }
    let version_step = if like_c15 {
        let vs = ["0.16.2", "0.19.0", "0.18.2", "0.16.3", "0.19.1", "1.0.0", "0.19.2", "0.17.5"];
        Step::SetVersion { version: Some(vs[vw].to_string()), definition: "ats_smart_contract".into() }
    } else if vw < VERSIONS.len() {
        Step::SetVersion { version: Some(VERSIONS[vw].to_string()), definition: "ats_smart_contract".into() }
    } else if vw == VERSIONS.len() {
        Step::SetVersion { version: None, definition: String::new() }
    } else {
        Step::RawVersion { raw: "{not json".into() }
    };
    let msg = migrate_msg(w, &cfg, prop == Prop::C14);
    // the published 1.0.0 left approved convertible asks whose recorded approver amount is larger
    // than their size (a partial reject did not reduce it): migration must leave them alone too
    if prop == Prop::C14 && gate(w[30], 250) && !cfg.convertibles.is_empty() && !cfg.approvers.is_empty() && cfg.convertibles[0] != cfg.base {
        let size = cfg.increment.max(1) * (1 + (w[30] % 5) as u128);
        r.step(Step::SeedAsk {
            ask: wire::Ask {
                id: "a1b2c3d4-0000-4000-8000-0000000fe001".into(),
                owner: POOL[pick(w[30].rotate_left(3), 8)].to_string(),
                class: wire::AskClass::Ready {
                    approver: cfg.approvers[0].clone(),
                    denom: cfg.base.clone(),
                    amount: size + cfg.increment.max(1) * (1 + (w[30] >> 8) as u128 % 3),
                },
                base: cfg.convertibles[0].clone(),
                quote: gen::at(&cfg.quotes, 0, "quote1"),
                price: "1".into(),
                size,
            },
        });
        r.judge.label("stale-approved-ask-from-1.0.0");
    }
    // instances created by early versions carry a bound name in their stored configuration
    if gate(w[31], 250) {
        r.step(Step::SetBindName { bind_name: "ats.pb".into() });
        r.judge.label("stored-config-with-bind-name");
    }
    // the twin: same state, bids left in the current format
    let mut twin = r.world.clone();
    for s in reenc_steps {
        r.step(s);
    }
    r.step(version_step.clone());
    // apply the version rewrite to the twin by hand
    match &version_step {
        Step::SetVersion { version: Some(v), definition } => {
            twin.store.map.insert(
                crate::chain::KEY_VERSION_INFO.to_vec(),
                serde_json::to_vec(&json!({"definition": definition, "version": v})).unwrap(),
            );
        }
        Step::SetVersion { version: None, .. } => {
            twin.store.map.remove(crate::chain::KEY_VERSION_INFO);
        }
        Step::RawVersion { raw } => {
            twin.store.map.insert(crate::chain::KEY_VERSION_INFO.to_vec(), raw.clone().into_bytes());
        }
        _ => {}
    }
    let class = classify(&r.world);
    let out = r.step(Step::Migrate { msg: msg.clone() });
    let migrated = out.map(|o| o.accepted()).unwrap_or(false);
    if like_c15 && migrated && class == VersionClass::ConversionWindow {
        let t_out = twin.migrate(&serde_json::to_vec(&msg).unwrap());
        if t_out.accepted() {
            // (a) the converted book equals the never-converted one, entry by entry (as JSON)
            for (k, v) in &twin.store.map {
                let same = match r.world.store.map.get(k) {
                    Some(x) => serde_json::from_slice::<Value>(x).ok() == serde_json::from_slice::<Value>(v).ok(),
                    None => false,
                };
                if !same {
                    r.judge.violate(
                        Prop::C15,
                        "converted-differs-from-native",
                        "twin",
                        format!(
                            "entry {:?}: converted {:?} vs native {:?}",
                            String::from_utf8_lossy(k),
                            r.world.store.map.get(k).map(|x| String::from_utf8_lossy(x).to_string()),
                            String::from_utf8_lossy(v)
                        ),
                    );
                }
            }
            // differential continuation
            let mut it = Interp::new(p, build_world(&tape.world, p));
            it.next_ask = 500_000;
            it.next_bid = 500_000;
            let extra = tape.ops.len().min(12);
            let mut touched = false;
            for op in tape.ops.iter().rev().take(extra) {
                let mut op2 = *op;
                // bias the continuation towards operations on bids
                op2[0] = op2[0].rotate_left(7);
                let book = r.book();
                if let Some(Step::Execute { sender, funds, msg }) = it.concretise(&op2, &book) {
                    let t = twin.execute(&sender, &funds, &serde_json::to_vec(&msg).unwrap());
                    let o = r.step(Step::Execute { sender, funds, msg: msg.clone() }).unwrap();
                    if o.kind != t.kind || o.subs != t.subs || o.attrs != t.attrs {
                        r.judge.violate(
                            Prop::C15,
                            "converted-bid-behaves-differently",
                            Req::from_value(&msg).kind(),
                            format!("{}: migrated world answers {:?} {:?}, never-converted twin {:?} {:?}", msg, o.kind, o.subs, t.kind, t.subs),
                        );
                    }
                    if o.accepted() {
                        let (_, bids) = Req::from_value(&msg).named();
                        if bids.iter().any(|b| r.judge.tracker.bids.get(b).map(|t| t.converted).unwrap_or(false)) {
                            touched = true;
                        }
                    }
                }
            }
            let a: Vec<_> = r.world.store.map.iter().map(|(k, v)| (k.clone(), serde_json::from_slice::<Value>(v).ok())).collect();
            let b: Vec<_> = twin.store.map.iter().map(|(k, v)| (k.clone(), serde_json::from_slice::<Value>(v).ok())).collect();
            if a != b {
                r.judge.violate(Prop::C15, "converted-book-diverges", "continuation", "storage of the migrated world and of its twin differ after the same continuation".into());
            }
            if touched && r.judge.labels.contains("converted-log-with-two-event-kinds") {
                r.judge.nontrivial = true;
            }
            if touched {
                r.judge.label("continuation-touched-converted-bid");
            }
        }
    }
    r
}
