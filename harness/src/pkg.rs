//! Name and version of the package under test, read from /repo/Cargo.toml at run time
//! (not through the contract's own constants).

use std::sync::OnceLock;

static PKG: OnceLock<(String, String)> = OnceLock::new();

pub fn repo_root() -> String {
    std::env::var("ATSV_REPO").unwrap_or_else(|_| "/repo".to_string())
}

pub fn package() -> (String, String) {
    PKG.get_or_init(|| {
        let text = std::fs::read_to_string(format!("{}/Cargo.toml", repo_root())).unwrap_or_default();
        let mut name = String::new();
        let mut version = String::new();
        let mut in_pkg = false;
        for line in text.lines() {
            let l = line.trim();
            if l.starts_with('[') {
                in_pkg = l == "[package]";
                continue;
            }
            if !in_pkg {
                continue;
            }
            if let Some(rest) = l.strip_prefix("name") {
                if let Some(v) = rest.trim_start().strip_prefix('=') {
                    name = v.trim().trim_matches('"').replace('-', "_");
                }
            } else if let Some(rest) = l.strip_prefix("version") {
                if let Some(v) = rest.trim_start().strip_prefix('=') {
                    version = v.trim().trim_matches('"').to_string();
                }
            }
        }
        (name, version)
    })
    .clone()
}
