//! Tape-of-blocks generator: a case is a world block and a list of op blocks of
//! fixed-size `u32` words. Every word is mapped to one choice through a monotone
//! map, ordered so that smaller words mean simpler choices; words are
//! state-relative seeds ("ask number k of the open asks"), so intended-valid
//! requests are built by construction and one fault word turns a request into a
//! single-fault variant.

use crate::chain::{MarkerKind, Tables};
use crate::exec::{Prop, Runner, Step};
use crate::num::{self, parse, prorata, Dec, Parsed};
use crate::wire::{self, Ask, AskClass, Bid, Book, Cfg, CfgChange};
use serde_json::{json, Value};

pub const WORLD_WORDS: usize = 32;
pub const OP_WORDS: usize = 12;

#[derive(Clone, Debug)]
pub struct Tape {
    pub world: [u32; WORLD_WORDS],
    pub ops: Vec<[u32; OP_WORDS]>,
}

/// element i of a list read back from the contract, or a default when the list is shorter
/// than the configuration requests led us to expect (a defective tree may have stored
/// something else; the observers report that, the generator must not fall over it)
pub fn at(list: &[String], i: usize, default: &str) -> String {
    list.get(i).cloned().unwrap_or_else(|| default.to_string())
}

/// monotone choice among n alternatives
pub fn pick(w: u32, n: usize) -> usize {
    if n == 0 {
        return 0;
    }
    ((w as u64 * n as u64) >> 32) as usize
}

/// monotone weighted choice
pub fn weighted(w: u32, weights: &[u32]) -> usize {
    let total: u64 = weights.iter().map(|x| *x as u64).sum();
    if total == 0 {
        return 0;
    }
    let x = (w as u64 * total) >> 32;
    let mut acc = 0u64;
    for (i, wt) in weights.iter().enumerate() {
        acc += *wt as u64;
        if x < acc {
            return i;
        }
    }
    weights.len() - 1
}

/// the fault words of a request: none, one, or (one faulty request in seven) two independent ones
pub fn fault_words(faulty: bool, fw: u32, extra: u32) -> Vec<u32> {
    if !faulty {
        vec![]
    } else if gate(extra.rotate_left(13), 140) {
        vec![fw, fw.rotate_left(11) ^ extra.wrapping_mul(0x9e37_79b9)]
    } else {
        vec![fw]
    }
}

/// true with probability permille/1000; false for small words (so shrinking removes it)
pub fn gate(w: u32, permille: u32) -> bool {
    let thr = ((1000 - permille.min(1000)) as u64 * (1u64 << 32)) / 1000;
    (w as u64) >= thr && permille > 0
}

// ---------------------------------------------------------------- profiles

pub const K_CREATE_ASK: usize = 0;
pub const K_CREATE_BID: usize = 1;
pub const K_MATCH: usize = 2;
pub const K_CANCEL_ASK: usize = 3;
pub const K_CANCEL_BID: usize = 4;
pub const K_EXPIRE_ASK: usize = 5;
pub const K_EXPIRE_BID: usize = 6;
pub const K_REJECT_ASK: usize = 7;
pub const K_REJECT_BID: usize = 8;
pub const K_APPROVE: usize = 9;
pub const K_MODIFY: usize = 10;
pub const N_KINDS: usize = 11;

#[derive(Clone, Debug)]
pub struct Profile {
    pub kinds: [u32; N_KINDS],
    /// probability (per mille) that a request carries one fault
    pub fault: u32,
    /// per mille of worlds with at least one convertible denomination
    pub convertible: u32,
    /// per mille of asks placed in a convertible denomination (when there is one)
    pub conv_asks: u32,
    /// per mille of worlds with fees on each side
    pub fees: u32,
    /// marker assignment: true = all 3^n equiprobable, false = biased to unrestricted
    pub mixed_markers: bool,
    /// per mille of worlds seeded with legacy-id orders
    pub legacy: u32,
    /// per mille of legacy-seeded worlds that also carry an approved convertible ask whose
    /// recorded approver amount exceeds its size (left behind by the published 1.0.0)
    pub stale_asks: u32,
    /// per mille of worlds that reuse a denomination across roles
    pub reuse_denoms: u32,
    /// per mille of worlds with required attributes
    pub attrs: u32,
    /// per mille of matches at a non-lot size
    pub non_lot: u32,
    /// tie-seeking fee sub-generator
    pub tie_seeking: bool,
    pub max_ops: usize,
    pub probe_budget: u32,
}

pub fn profile(prop: Prop, thorough: bool) -> Profile {
    let base = Profile {
        kinds: [22, 22, 26, 3, 3, 3, 3, 6, 6, 8, 3],
        fault: 120,
        convertible: 600,
        conv_asks: 400,
        fees: 600,
        mixed_markers: false,
        legacy: 0,
        stale_asks: 0,
        reuse_denoms: 50,
        attrs: 150,
        non_lot: 300,
        tie_seeking: false,
        max_ops: if thorough { 120 } else { 40 },
        probe_budget: 6,
    };
    match prop {
        Prop::C01 => Profile { mixed_markers: true, legacy: 100, ..base },
        Prop::C02 => Profile {
            kinds: [22, 24, 34, 1, 1, 1, 1, 4, 5, 8, 2],
            fault: 60,
            ..base
        },
        Prop::C03 => Profile {
            kinds: [22, 22, 30, 1, 1, 1, 1, 6, 6, 8, 2],
            fault: 200,
            ..base
        },
        Prop::C04 => Profile {
            kinds: [20, 20, 18, 6, 6, 5, 5, 10, 10, 8, 2],
            fault: 120,
            fees: 800,
            legacy: 100,
            ..base
        },
        Prop::C05 => Profile {
            kinds: [20, 20, 14, 5, 5, 5, 5, 6, 6, 8, 10],
            fault: 300,
            probe_budget: 4,
            ..base
        },
        Prop::C06 => Profile {
            kinds: [22, 22, 28, 1, 1, 1, 1, 8, 8, 8, 4],
            fault: 40,
            legacy: 500,
            non_lot: 600,
            ..base
        },
        Prop::C07 => Profile {
            kinds: [40, 40, 6, 2, 2, 1, 1, 1, 1, 3, 3],
            fault: 600,
            attrs: 400,
            mixed_markers: true,
            tie_seeking: true,
            ..base
        },
        Prop::C08 => Profile {
            reuse_denoms: 150,
            kinds: [26, 14, 22, 3, 1, 3, 1, 10, 2, 18, 2],
            convertible: 1000,
            conv_asks: 850,
            fault: 200,
            mixed_markers: true,
            ..base
        },
        Prop::C09 => Profile {
            kinds: [18, 24, 34, 1, 3, 1, 3, 2, 10, 4, 2],
            fees: 1000,
            fault: 40,
            tie_seeking: true,
            non_lot: 500,
            legacy: 150,
            ..base
        },
        Prop::C10 => Profile { mixed_markers: true, convertible: 800, fault: 80, ..base },
        Prop::C11 => Profile {
            kinds: [26, 26, 20, 3, 3, 3, 3, 5, 5, 6, 3],
            fault: 150,
            legacy: 200,
            ..base
        },
        Prop::C12 => Profile {
            kinds: [20, 20, 20, 4, 4, 4, 4, 3, 3, 4, 24],
            fault: 100,
            probe_budget: 2,
            ..base
        },
        Prop::C13 => base.clone(),
        Prop::C14 | Prop::C15 => Profile {
            legacy: 300,
            kinds: [20, 30, 26, 1, 2, 1, 2, 3, 10, 6, 2],
            fault: 30,
            fees: 800,
            max_ops: if thorough { 60 } else { 30 },
            ..base
        },
        Prop::C16 => Profile { legacy: 300, stale_asks: 400, ..base },
        Prop::C17 => Profile {
            kinds: [20, 20, 24, 4, 5, 4, 5, 8, 8, 8, 2],
            legacy: 100,
            fault: 60,
            ..base
        },
    }
}

// ---------------------------------------------------------------- world

// two of the names contain another one ("acct1" in "acct10", "acct3" in "acct3x"); one address
// is spelled like a denomination
pub const POOL: [&str; 8] = [
    "acct0", "acct1", "acct2", "acct3", "acct4", "acct10", "quote1", "acct3x",
];

#[derive(Clone, Debug)]
pub struct WorldSpec {
    pub tables: Tables,
    pub instantiate: Value,
    pub precision: u32,
    pub increment: u128,
    pub base: String,
    pub convertibles: Vec<String>,
    pub quotes: Vec<String>,
    /// the numerically extreme regime: 18 decimals, tiny prices, long rates, huge sizes
    pub extreme: bool,
    /// history shape: 0 ordinary, 1 deep (large orders, many small fills / rejects on the same
    /// pair), 2 wide (many orders open at once)
    pub shape: u8,
}

const RATES: [&str; 21] = [
    "0.01", "0", "0.001", "0.025", "0.05", "0.125", "0.3333", "0.5", "1", "0.0001", "0.15", "1.5", "0.005", "0.333", "0.0100", "1.0", "00.02", ".05",
    // more than 18 decimals, the last ones not zero
    "0.00000000000000000124", "0.0100000000000000000049", "0.000000000000000000005",
];

fn rate_from(w: u32, w2: u32, tie_seeking: bool) -> String {
    if tie_seeking {
        // rates whose products land on .5 ties often: k/2, k/20, k/200, k/8
        let r = ["0.5", "0.05", "0.005", "0.125", "0.25", "0.025", "0.15", "0.35", "0.0005", "2.5"];
        return r[pick(w, r.len())].to_string();
    }
    let i = pick(w, RATES.len() + 2);
    if i < RATES.len() {
        RATES[i].to_string()
    } else {
        // random rate of up to 8 decimals below 1
        let m = (w2 % 100_000_000) as u128;
        Dec {
            neg: false,
            mant: num::u(m),
            scale: 8,
        }
        .to_plain_string()
    }
}

pub fn build_world(w: &[u32; WORLD_WORDS], p: &Profile) -> WorldSpec {
    let precisions: [u32; 10] = [0, 1, 2, 3, 4, 6, 8, 9, 12, 18];
    let extreme = gate(w[0].rotate_left(7), 40);
    let precision = if extreme { 18 } else { precisions[weighted(w[0], &[30, 12, 14, 8, 6, 8, 5, 4, 4, 9])] };
    let ks: [u128; 8] = [1, 10, 2, 5, 25, 100, 1000, 3];
    let k = if extreme { 1 } else { ks[weighted(w[1], &[40, 20, 8, 8, 6, 8, 5, 5])] };
    let increment = k * 10u128.pow(precision);
    let n_conv = if gate(w[2], p.convertible) { 1 + pick(w[2] << 8, 2) } else { 0 };
    let n_quote = 1 + weighted(w[3], &[70, 30]);
    let base = "base".to_string();
    let mut convertibles: Vec<String> = (0..n_conv).map(|i| format!("conv{}", i + 1)).collect();
    if n_conv >= 1 && gate(w[2].rotate_left(9), 250) {
        // a convertible denomination whose name contains the base denomination's
        convertibles[0] = format!("{}.c1", base);
    }
    let mut quotes: Vec<String> = (0..n_quote).map(|i| format!("quote{}", i + 1)).collect();
    if n_quote == 2 && gate(w[3].rotate_left(9), 300) {
        // one denomination's name contained in the other's
        quotes[1] = format!("{}.b", quotes[0]);
    }
    if gate(w[5], p.reuse_denoms) {
        // a denomination playing two roles
        match pick(w[5] << 6, 5) {
            0 if !convertibles.is_empty() => convertibles[0] = quotes[0].clone(),
            1 => quotes[n_quote - 1] = base.clone(),
            // the contract's own base listed among the convertible denominations
            2 => convertibles.push(base.clone()),
            3 => convertibles.insert(0, base.clone()),
            _ => {
                if convertibles.is_empty() {
                    convertibles.push(quotes[0].clone());
                } else {
                    convertibles[0] = quotes[0].clone();
                }
            }
        }
    }
    // denomination names are case sensitive; some markets use capitals
    let base = if gate(w[5].rotate_left(11), 120) { "Base".to_string() } else { base };
    if gate(w[5].rotate_left(13), 120) {
        for q in quotes.iter_mut() {
            *q = q.replacen('q', "Q", 1);
        }
    }
    if gate(w[5].rotate_left(17), 120) {
        for c in convertibles.iter_mut() {
            if c.starts_with("conv") {
                *c = c.replacen('c', "C", 1);
            }
        }
    }
    if gate(w[5].rotate_left(19), 100) {
        // denominations are opaque strings: IBC vouchers, factory tokens, a leading digit
        if let Some(q) = quotes.last_mut() {
            *q = "ibc/27394FB092D2ECCD56123C74F36E4C1F926001CEADA9CA97EA622B25F41E5EB2".to_string();
        }
        if let Some(c) = convertibles.last_mut() {
            *c = "1conv:x".to_string();
        }
    }
    let mut tables = Tables::default();
    let mut denoms: Vec<String> = vec![base.clone()];
    denoms.extend(convertibles.iter().cloned());
    denoms.extend(quotes.iter().cloned());
    denoms.dedup();
    let mut x = w[4] as u64;
    for d in &denoms {
        if tables.markers.contains_key(d) {
            continue;
        }
        let kind = if p.mixed_markers {
            match x % 3 {
                0 => MarkerKind::Unrestricted,
                1 => MarkerKind::Restricted,
                _ => MarkerKind::NoMarker,
            }
        } else {
            match x % 9 {
                0..=4 => MarkerKind::Unrestricted,
                5..=6 => MarkerKind::Restricted,
                _ => MarkerKind::NoMarker,
            }
        };
        x /= if p.mixed_markers { 3 } else { 9 };
        if kind == MarkerKind::Restricted && (w[4].rotate_left(3) ^ d.len() as u32) % 3 == 0 {
            tables.marker_required_attrs.insert(d.clone());
        }
        // one marker in ten is answered as cancelled, finalized or proposed: still the same type
        if kind != MarkerKind::NoMarker && (w[4].rotate_left(11) ^ (d.len() as u32).wrapping_mul(2654435761)) % 10 == 0 {
            tables.marker_status.insert(d.clone(), [4, 2, 1, 4][(w[4].rotate_left(19) % 4) as usize]);
        }
        tables.markers.insert(d.clone(), kind);
    }
    // roles
    let executors: Vec<String> = {
        let mut v = vec![POOL[pick(w[10], 3)].to_string()];
        if gate(w[11], 350) {
            let second = POOL[pick(w[11] << 7, 4)].to_string();
            if !v.contains(&second) {
                v.push(second);
            }
        }
        v
    };
    let approvers: Vec<String> = if gate(w[12].rotate_left(9), 50) {
        // a market without approvers is coherent: nobody can approve
        vec![]
    } else {
        let mut v = vec![POOL[2 + pick(w[12], 3)].to_string()];
        if gate(w[13], 350) {
            let second = POOL[1 + pick(w[13] << 7, 5)].to_string();
            if !v.contains(&second) {
                v.push(second);
            }
        }
        v
    };
    // lists may legally name an entry twice
    let (mut executors, mut approvers) = (executors, approvers);
    if gate(w[11].rotate_left(17), 60) {
        let d = executors[0].clone();
        executors.push(d);
    }
    if gate(w[13].rotate_left(17), 60) {
        if let Some(d) = approvers.first().cloned() {
            approvers.push(d);
        }
    }
    if gate(w[3].rotate_left(17), 40) {
        let d = quotes[0].clone();
        quotes.push(d);
    }
    if gate(w[2].rotate_left(17), 40) {
        if let Some(d) = convertibles.first().cloned() {
            convertibles.push(d);
        }
    }
    let mut msg = serde_json::Map::new();
    msg.insert("name".into(), json!("ats-market"));
    msg.insert("base_denom".into(), json!(base));
    msg.insert("convertible_base_denoms".into(), json!(convertibles));
    msg.insert("supported_quote_denoms".into(), json!(quotes));
    msg.insert("approvers".into(), json!(approvers));
    msg.insert("executors".into(), json!(executors));
    let long_rate = |a: u32, b: u32| -> String {
        // up to 14 decimals, 1 to 4 significant digits
        let m = 1 + (a % 9999) as u128;
        Dec { neg: false, mant: num::u(m), scale: 8 + (b % 7) }.to_plain_string()
    };
    if extreme && gate(w[6], p.fees.max(700)) {
        msg.insert("ask_fee_rate".into(), json!(long_rate(w[6], w[7])));
        msg.insert("ask_fee_account".into(), json!(POOL[3 + pick(w[7], 5)]));
    } else if gate(w[6], p.fees) {
        msg.insert("ask_fee_rate".into(), json!(rate_from(w[6] << 9, w[7], false)));
        msg.insert("ask_fee_account".into(), json!(POOL[3 + pick(w[7], 5)]));
    }
    if extreme && gate(w[8], p.fees.max(700)) {
        msg.insert("bid_fee_rate".into(), json!(long_rate(w[8], w[9])));
        msg.insert("bid_fee_account".into(), json!(POOL[3 + pick(w[9], 5)]));
    } else if gate(w[8], p.fees) {
        msg.insert("bid_fee_rate".into(), json!(rate_from(w[8] << 9, w[9], p.tie_seeking)));
        msg.insert("bid_fee_account".into(), json!(POOL[3 + pick(w[9], 5)]));
    }
    let mut ask_attrs: Vec<String> = vec![];
    let mut bid_attrs: Vec<String> = vec![];
    if gate(w[14], p.attrs) {
        ask_attrs.push("ask.kyc".to_string());
        if gate(w[14] << 5, 300) {
            ask_attrs.push("ask.accredited".to_string());
        }
    }
    if gate(w[15], p.attrs) {
        bid_attrs.push("bid.kyc".to_string());
    }
    // a required list may name an attribute twice
    if gate(w[14].rotate_left(11), 100) {
        if let Some(d) = ask_attrs.first().cloned() {
            ask_attrs.push(d);
        }
    }
    if gate(w[15].rotate_left(11), 100) {
        if let Some(d) = bid_attrs.first().cloned() {
            bid_attrs.push(d);
        }
    }
    // holder table: each account holds each attribute with probability 3/4
    let mut bits = (w[16] as u64) << 16 | (w[17] as u64 & 0xffff);
    for a in POOL.iter() {
        let mut held = vec![];
        for name in ["ask.kyc", "ask.accredited", "bid.kyc"] {
            if bits % 4 != 0 {
                held.push(name.to_string());
            }
            bits /= 4;
            if bits == 0 {
                bits = 0x9e3779b97f4a7c15 ^ (w[17] as u64);
            }
        }
        // an account may carry the same attribute name more than once (several values)
        if bits % 5 == 0 {
            if let Some(d) = held.first().cloned() {
                held.push(d);
            }
        }
        bits /= 5;
        tables.attrs.insert(a.to_string(), held);
    }
    msg.insert("ask_required_attributes".into(), json!(ask_attrs));
    msg.insert("bid_required_attributes".into(), json!(bid_attrs));
    msg.insert("price_precision".into(), json!(precision.to_string()));
    msg.insert("size_increment".into(), json!(increment.to_string()));
    WorldSpec {
        tables,
        instantiate: Value::Object(msg),
        precision,
        increment,
        base,
        convertibles,
        quotes,
        extreme,
        shape: match pick(w[29], 10) {
            8 => 1,
            9 => 2,
            _ => 0,
        },
    }
}

// ---------------------------------------------------------------- interpreter

pub struct Interp<'a> {
    pub p: &'a Profile,
    pub spec: WorldSpec,
    pub next_ask: u64,
    pub next_bid: u64,
}

pub const NIL_UUID: &str = "00000000-0000-0000-0000-000000000000";

fn uuid_of(n: u64) -> String {
    // hex letters in every id, so that an upper-case spelling is a different string
    format!("a1b2c3d4-0000-4000-8000-{:012x}", n)
}

/// ids as earlier versions accepted them: any spelling that parses as a UUID was used as the
/// storage key - mostly un-hyphenated, sometimes upper case, braced or as a URN
fn legacy_uuid_of(n: u64) -> String {
    let tail = 0xeee000u64 + n;
    match n % 7 {
        3 => format!("A1B2C3D4-0000-4000-8000-{:012X}", tail),
        5 => format!("{{a1b2c3d4-0000-4000-8000-{:012x}}}", tail),
        6 => format!("urn:uuid:a1b2c3d4-0000-4000-8000-{:012x}", tail),
        _ => format!("a1b2c3d4000040008000{:012x}", tail),
    }
}

const PRICE_MANTS: [u128; 17] = [1, 2, 3, 5, 10, 4, 7, 15, 25, 99, 100, 125, 1000, 12345, 123456789, 1234567890123456789, 99999999999999999999];
const LOTS: [u128; 14] = [1, 2, 3, 5, 10, 4, 20, 50, 100, 1000, 1_000_000, 1_000_000_000_000, 18_446_744_073_709_551_615, 39_614_081_257_132_168_796_771_975_167];

fn price_string_x(w: u32, w2: u32, precision: u32, extreme: bool) -> String {
    if extreme {
        // tiny prices using every decimal the market allows
        let m = [1u128, 2, 5, 25, 14, 999][pick(w, 6)];
        return Dec { neg: false, mant: num::u(m), scale: precision }.to_plain_string();
    }
    price_string(w, w2, precision)
}

fn price_string(w: u32, w2: u32, precision: u32) -> String {
    // the last three carry 9, 19 and 20 significant digits
    let m = PRICE_MANTS[weighted(w, &[16, 14, 10, 10, 10, 6, 6, 6, 5, 4, 4, 4, 3, 2, 2, 1, 1])];
    // mostly few decimals; one time in five the whole configured precision is in play
    let maxd = if pick(w2.rotate_left(21), 5) == 4 { precision } else { precision.min(4) };
    let d = pick(w2, (maxd + 1) as usize) as u32;
    let dec = Dec {
        neg: false,
        mant: num::u(m),
        scale: d,
    };
    let mut s = dec.normalized().to_plain_string();
    // occasionally a different spelling of the same number, within the precision
    match pick(w2.rotate_left(13), 16) {
        // other unambiguous spellings of the same number: ".5", "1.", "+1.5"
        12 => {
            if let Some(rest) = s.strip_prefix("0.") {
                s = format!(".{}", rest);
            }
        }
        13 => {
            if !s.contains('.') {
                s.push('.');
            }
        }
        14 => s = format!("+{}", s),
        // thirty and more decimals, the surplus ones all zero
        15 => {
            let have = s.split('.').nth(1).map(|x| x.len()).unwrap_or(0);
            if !s.contains('.') {
                s.push('.');
            }
            s.push_str(&"0".repeat(31usize.saturating_sub(have)));
        }
        10 => {
            let nd = dec.normalized().scale;
            if nd < precision {
                if !s.contains('.') {
                    s.push('.');
                }
                s.push('0');
            }
        }
        11 => s = format!("0{}", s),
        _ => {}
    }
    s
}

fn size_of_x(w: u32, increment: u128, extreme: bool) -> u128 {
    if extreme {
        // 10^27 .. just below 2^95, on the lot grid
        let lots = [1_000_000_000u128, 5_000_000_000, 20_000_000_000, 39_000_000_000, 7_777_777_777][pick(w, 5)];
        return lots.saturating_mul(increment).min((1u128 << 95) / increment.max(1) * increment.max(1));
    }
    size_of(w, increment)
}

fn size_of(w: u32, increment: u128) -> u128 {
    // the last two: 2^64 - 1 lots, and a size just below 2^95 whatever the increment
    let raw = match weighted(w, &[14, 14, 10, 10, 12, 8, 8, 6, 8, 5, 3, 3, 2, 2]) {
        13 => (LOTS[13] / increment.max(1)).max(1).saturating_mul(increment),
        i => LOTS[i].saturating_mul(increment),
    };
    // keep room for the +-1 faults; stay on the lot grid
    let cap = 1u128 << 120;
    if raw > cap {
        (cap / increment.max(1)).max(1) * increment.max(1)
    } else {
        raw
    }
}

fn exact_fee(rate: &str, total: u128) -> Option<u128> {
    match parse(rate) {
        Parsed::Num(r) if !r.neg => r.mul_u128(total).round_half_away(),
        _ => None,
    }
}

fn holders(t: &Tables, attrs: &[String]) -> Vec<String> {
    POOL.iter()
        .filter(|a| attrs.iter().all(|x| t.holds(a, x)))
        .map(|a| a.to_string())
        .collect()
}

fn other_roles(book: &Book, cfg: &Cfg, authorized: &[String], w: u32) -> String {
    // every other role: owners, approvers, executors, fee accounts, a stranger
    let mut c: Vec<String> = crate::props::probes::addresses(book);
    for a in POOL.iter() {
        if !c.contains(&a.to_string()) {
            c.push(a.to_string());
        }
    }
    let _ = cfg;
    c.retain(|x| !authorized.contains(x) && x != crate::chain::CONTRACT);
    if c.is_empty() {
        return "stranger0".into();
    }
    c[pick(w, c.len())].clone()
}

fn mangle_id(id: &str, how: usize) -> String {
    match how {
        0 => id.to_uppercase(),
        1 => id.chars().filter(|c| *c != '-').collect(),
        2 => format!("{{{}}}", id),
        3 => format!("urn:uuid:{}", id),
        4 => id[..id.len() - 1].to_string(),
        _ => "not-a-uuid".to_string(),
    }
}

impl<'a> Interp<'a> {
    pub fn new(p: &'a Profile, spec: WorldSpec) -> Interp<'a> {
        Interp {
            p,
            spec,
            next_ask: 1,
            next_bid: 1,
        }
    }

    fn escrow(&self, denom: &str, amount: u128) -> Vec<(String, u128)> {
        if self.spec.tables.restricted(denom) || amount == 0 {
            vec![]
        } else {
            vec![(denom.to_string(), amount)]
        }
    }

    /// seed legacy-id orders right after instantiation
    pub fn seeds(&mut self, w: &[u32; WORLD_WORDS], cfg: &Cfg) -> Vec<Step> {
        let mut out = vec![];
        if !gate(w[18], self.p.legacy) {
            return out;
        }
        if gate(w[18].rotate_left(11), self.p.stale_asks) && !cfg.convertibles.is_empty() && !cfg.approvers.is_empty() && cfg.convertibles[0] != cfg.base {
            let size = cfg.increment.max(1) * (1 + (w[18] % 5) as u128);
            out.push(Step::SeedAsk {
                ask: Ask {
                    id: "a1b2c3d4-0000-4000-8000-0000000fe001".into(),
                    owner: POOL[pick(w[18].rotate_left(3), 8)].to_string(),
                    class: AskClass::Ready {
                        approver: cfg.approvers[0].clone(),
                        denom: cfg.base.clone(),
                        amount: size + cfg.increment.max(1) * (1 + (w[18] >> 8) as u128 % 3),
                    },
                    base: cfg.convertibles[0].clone(),
                    quote: at(&cfg.quotes, 0, "quote1"),
                    price: "1".into(),
                    size,
                },
            });
        }
        let n = 1 + pick(w[18] << 4, 3);
        for i in 0..n {
            let ww = w[19 + i];
            let owner = POOL[pick(ww, 8)].to_string();
            let price = price_string(ww.rotate_left(3), ww.rotate_left(9), self.spec.precision);
            let size = size_of(ww.rotate_left(17), self.spec.increment);
            let quote = crate::gen::at(&cfg.quotes, pick(ww.rotate_left(5), cfg.quotes.len()), "quote1");
            // only orders an earlier version could have admitted: amounts inside the 96-bit zone
            let admissible = match parse(&price) {
                Parsed::Num(p) => size < (1u128 << 90) && p.mul_u128(size).as_u128().map(|t| t < (1u128 << 90)).unwrap_or(false),
                _ => false,
            };
            if !admissible {
                continue;
            }
            let shape = (ww >> 1) & 3;
            if ww & 1 == 0 {
                // a plain ask, or (when the market has a convertible denomination) a pending one
                let (base, class) = if shape == 3 && !cfg.convertibles.is_empty() && cfg.convertibles[0] != cfg.base {
                    (cfg.convertibles[0].clone(), AskClass::Pending)
                } else {
                    (cfg.base.clone(), AskClass::Basic)
                };
                out.push(Step::SeedAsk {
                    ask: Ask {
                        id: legacy_uuid_of(i as u64),
                        owner,
                        class,
                        base,
                        quote,
                        price,
                        size,
                    },
                });
            } else if let Parsed::Num(p) = parse(&price) {
                if let Some(total) = p.mul_u128(size).as_u128() {
                    let fee = cfg.bid_fee.as_ref().and_then(|f| exact_fee(&f.1, total)).unwrap_or(0);
                    // fresh, or carried over partly filled (whole lots at its own price, fee pro rata)
                    let lots = size / cfg.increment.max(1);
                    let filled = if shape >= 2 && lots >= 2 { ((ww as u128 >> 8) % (lots - 1) + 1) * cfg.increment } else { 0 };
                    let acc_quote = p.mul_u128(filled).as_u128().unwrap_or(0);
                    let acc_fee = if fee > 0 && total > 0 { fee - prorata(fee, total - acc_quote, total).rounded } else { 0 };
                    out.push(Step::SeedBid {
                        bid: Bid {
                            id: legacy_uuid_of(100 + i as u64),
                            owner,
                            base_denom: cfg.base.clone(),
                            size,
                            acc_base: filled,
                            acc_quote,
                            acc_fee,
                            fee: if fee > 0 { Some((quote.clone(), fee)) } else { None },
                            price,
                            quote_denom: quote,
                            quote: total,
                        },
                    });
                }
            }
        }
        out
    }

    /// turn one op block into a concrete step, given the current book
    pub fn concretise(&mut self, w: &[u32; OP_WORDS], book: &Book) -> Option<Step> {
        let cfg = book.cfg.as_ref()?;
        let mut kinds = self.p.kinds;
        // kinds that need an order fall back to creation when the book has none
        if book.asks.is_empty() {
            for k in [K_CANCEL_ASK, K_EXPIRE_ASK, K_REJECT_ASK, K_APPROVE] {
                kinds[k] = kinds[k].min(1);
            }
        }
        if book.bids.is_empty() {
            for k in [K_CANCEL_BID, K_EXPIRE_BID, K_REJECT_BID] {
                kinds[k] = kinds[k].min(1);
            }
        }
        if book.asks.is_empty() || book.bids.is_empty() {
            kinds[K_MATCH] = kinds[K_MATCH].min(2);
        }
        if !book.asks.values().any(|a| a.class == AskClass::Pending) {
            kinds[K_APPROVE] = kinds[K_APPROVE].min(1);
        }
        match self.spec.shape {
            1 => {
                // deep: few orders, worked on again and again
                if !book.asks.is_empty() {
                    kinds[K_CREATE_ASK] = kinds[K_CREATE_ASK].min(3);
                }
                if !book.bids.is_empty() {
                    kinds[K_CREATE_BID] = kinds[K_CREATE_BID].min(3);
                }
                kinds[K_MATCH] = kinds[K_MATCH].max(40);
                for k in [K_CANCEL_ASK, K_CANCEL_BID, K_EXPIRE_ASK, K_EXPIRE_BID] {
                    kinds[k] = kinds[k].min(1);
                }
            }
            2 => {
                // wide: the book fills up
                kinds[K_CREATE_ASK] = kinds[K_CREATE_ASK].max(45);
                kinds[K_CREATE_BID] = kinds[K_CREATE_BID].max(45);
                for k in [K_CANCEL_ASK, K_CANCEL_BID, K_EXPIRE_ASK, K_EXPIRE_BID] {
                    kinds[k] = kinds[k].min(1);
                }
            }
            _ => {}
        }
        let kind = weighted(w[0], &kinds);
        let faulty = gate(w[6], self.p.fault);
        let fw = w[5];
        let step = self.concretise_kind(kind, w, book, cfg, faulty, fw);
        // whatever faults were combined, the attached funds stay a list the bank module would
        // deliver: sorted by denomination, one entry per denomination, no zero amounts
        let nulls = w[11].rotate_left(3) % 5 == 0;
        step.map(|s| match s {
            Step::Execute { sender, mut funds, mut msg } => {
                // an optional field may be omitted or given as JSON null: same request
                if nulls {
                    if let Some(body) = msg.as_object_mut().and_then(|o| o.values_mut().next()).and_then(|b| b.as_object_mut()) {
                        let kind_keys: &[&str] = &["fee", "size", "approvers", "executors", "ask_fee_rate", "ask_fee_account", "bid_fee_rate", "bid_fee_account", "ask_required_attributes", "bid_required_attributes"];
                        let is_reject_or_bid_or_modify = true;
                        if is_reject_or_bid_or_modify {
                            for k in kind_keys {
                                // only where the field is optional for this request kind
                                let optional = match *k {
                                    "fee" => body.contains_key("quote_size"),
                                    "size" => !body.contains_key("price") && !body.contains_key("base") && body.contains_key("id") && body.len() <= 2,
                                    _ => !body.contains_key("id") && !body.contains_key("ask_id"),
                                };
                                if optional && !body.contains_key(*k) {
                                    body.insert((*k).to_string(), Value::Null);
                                }
                            }
                        }
                    }
                }
                funds.sort();
                let mut merged: Vec<(String, u128)> = vec![];
                for (d, a) in funds {
                    match merged.last_mut() {
                        Some((ld, la)) if *ld == d => *la = la.saturating_add(a),
                        _ => merged.push((d, a)),
                    }
                }
                merged.retain(|(_, a)| *a > 0);
                Step::Execute { sender, funds: merged, msg }
            }
            other => other,
        })
    }

    fn concretise_kind(&mut self, kind: usize, w: &[u32; OP_WORDS], book: &Book, cfg: &Cfg, faulty: bool, fw: u32) -> Option<Step> {
        match kind {
            K_CREATE_ASK => Some(self.create_ask(w, book, cfg, faulty, fw)),
            K_CREATE_BID => Some(self.create_bid(w, book, cfg, faulty, fw)),
            K_MATCH => Some(self.do_match(w, book, cfg, faulty, fw)),
            K_CANCEL_ASK | K_EXPIRE_ASK | K_REJECT_ASK => Some(self.reverse_ask(kind, w, book, cfg, faulty, fw)),
            K_CANCEL_BID | K_EXPIRE_BID | K_REJECT_BID => Some(self.reverse_bid(kind, w, book, cfg, faulty, fw)),
            K_APPROVE => Some(self.approve(w, book, cfg, faulty, fw)),
            _ => Some(self.modify(w, book, cfg, faulty, fw)),
        }
    }

    fn trader(&self, w: u32, attrs: &[String]) -> String {
        let h = holders(&self.spec.tables, attrs);
        if h.is_empty() {
            POOL[pick(w, 8)].to_string()
        } else {
            h[pick(w, h.len())].clone()
        }
    }

    fn create_ask(&mut self, w: &[u32; OP_WORDS], book: &Book, cfg: &Cfg, faulty: bool, fw: u32) -> Step {
        let mut sender = self.trader(w[7], &cfg.ask_attrs);
        let mut base = if !cfg.convertibles.is_empty() && gate(w[2], self.p.conv_asks) {
            cfg.convertibles[pick(w[2] << 7, cfg.convertibles.len())].clone()
        } else {
            cfg.base.clone()
        };
        let mut quote = at(&cfg.quotes, pick(w[1], cfg.quotes.len()), "quote1");
        let mut price = price_string_x(w[4], w[8], self.spec.precision, self.spec.extreme);
        let mut size = size_of_x(w[3], cfg.increment, self.spec.extreme && gate(w[10].rotate_left(3), 600));
        if self.spec.shape == 1 && !self.spec.extreme {
            size = cfg.increment.saturating_mul(60 + (w[3] % 400) as u128);
        }
        let mut id = uuid_of(self.next_ask);
        self.next_ask += 1;
        // the canonical spelling of a UUID that a legacy order carries un-hyphenated: a
        // different id, and a legal one
        if gate(w[10], 250) {
            if let Some(t) = twin_of_legacy(book.asks.keys(), |k| book.asks.contains_key(k)) {
                id = t;
            }
        }
        // the nil UUID is a canonical hyphenated UUID like any other
        if gate(w[10].rotate_left(7), 30) && !book.asks.contains_key(NIL_UUID) {
            id = NIL_UUID.to_string();
        }
        // an id whose earlier order has left the book may be used again
        if gate(w[10].rotate_left(19), 120) && self.next_ask > 2 {
            let old = uuid_of(1 + (w[10] as u64 >> 3) % (self.next_ask - 2));
            if !book.asks.contains_key(&old) {
                id = old;
            }
        }
        let mut funds = self.escrow(&base, size);
        for fw in fault_words(faulty, fw, w[11]) {
            match pick(fw, 20) {
                0 => funds = bump(funds, &base, 1, true),
                1 => funds = bump(funds, &base, 1, false),
                2 => funds = vec![(quote.clone(), size)],
                3 => {
                    funds.push(("zzextra".into(), 1));
                    funds.sort();
                }
                4 => funds = if funds.is_empty() { vec![(base.clone(), size)] } else { vec![] },
                5 => {
                    let missing: Vec<&str> = POOL.iter().copied().filter(|a| !cfg.ask_attrs.iter().all(|x| self.spec.tables.holds(a, x))).collect();
                    if !missing.is_empty() {
                        sender = missing[pick(w[9], missing.len())].to_string();
                    }
                }
                6 => {
                    size += 1;
                    funds = self.escrow(&base, size);
                }
                7 => size = 0,
                8 if w[9] & 1 == 0 => price = format!("{}1", if price.contains('.') { pad_to(&price, self.spec.precision) } else { format!("{}.{}", price, "0".repeat(self.spec.precision as usize)) }),
                8 => price = surplus_decimals_price(w[9], w[10], self.spec.precision),
                9 => price = "0".into(),
                10 => price = format!("-{}", price),
                11 => price = ["abc", "", "1e5", "1,5", "1..2", " 1", "NaN", ".", "-"][pick(w[9], 9)].to_string(),
                12 => quote = "unsupported".into(),
                13 => {
                    base = "unsupported".into();
                    funds = self.escrow(&base, size);
                }
                14 => {
                    if let Some(k) = book.asks.keys().next() {
                        id = k.clone();
                    }
                }
                15 => id = mangle_id(&id, pick(w[9], 6)),
                16 => quote = String::new(),
                17 => {
                    size = size.saturating_sub(1);
                    funds = self.escrow(&base, size);
                }
                18 => {
                    // an id that is on the other side of the book: legal
                    if let Some(k) = book.bids.keys().next() {
                        if !book.asks.contains_key(k) {
                            id = k.clone();
                        }
                    }
                }
                _ => {
                    // the wrong denomination of the right amount, base swapped for a convertible
                    if let Some(c) = cfg.convertibles.first() {
                        if c != &base {
                            funds = vec![(c.clone(), size)];
                        }
                    }
                }
            }
        }
        Step::Execute {
            sender,
            funds,
            msg: wire::m_create_ask(&id, &base, &quote, &price, size),
        }
    }

    fn create_bid(&mut self, w: &[u32; OP_WORDS], book: &Book, cfg: &Cfg, faulty: bool, fw: u32) -> Step {
        let mut sender = self.trader(w[7], &cfg.bid_attrs);
        let mut base = cfg.base.clone();
        let mut quote = at(&cfg.quotes, pick(w[1], cfg.quotes.len()), "quote1");
        let mut price = price_string_x(w[4], w[8], self.spec.precision, self.spec.extreme);
        let mut size = size_of_x(w[3], cfg.increment, self.spec.extreme && gate(w[10].rotate_left(3), 600));
        if self.spec.shape == 1 && !self.spec.extreme {
            size = cfg.increment.saturating_mul(60 + (w[3] % 400) as u128);
        }
        if self.p.tie_seeking && gate(w[10], 500) {
            // totals that make rate x total land on or next to a half
            size = cfg.increment.saturating_mul(1 + (w[10] % 41) as u128);
        }
        let mut id = uuid_of(self.next_bid);
        self.next_bid += 1;
        if gate(w[11], 250) {
            if let Some(t) = twin_of_legacy(book.bids.keys(), |k| book.bids.contains_key(k)) {
                id = t;
            }
        }
        if gate(w[11].rotate_left(7), 30) && !book.bids.contains_key(NIL_UUID) {
            id = NIL_UUID.to_string();
        }
        if gate(w[11].rotate_left(19), 120) && self.next_bid > 2 {
            let old = uuid_of(1 + (w[11] as u64 >> 3) % (self.next_bid - 2));
            if !book.bids.contains_key(&old) {
                id = old;
            }
        }
        let total = match parse(&price) {
            Parsed::Num(p) => p.mul_u128(size).as_u128().unwrap_or(0),
            _ => 0,
        };
        let mut quote_size = total;
        let fee_amt = cfg.bid_fee.as_ref().and_then(|f| exact_fee(&f.1, total)).unwrap_or(0);
        let mut fee: Option<(String, u128)> = if fee_amt > 0 { Some((quote.clone(), fee_amt)) } else { None };
        let mut funds = self.escrow(&quote, total.saturating_add(fee_amt));
        for fw in fault_words(faulty, fw, w[11]) {
            match pick(fw, 24) {
                0 => funds = bump(funds, &quote, 1, true),
                1 => funds = bump(funds, &quote, 1, false),
                2 => funds = vec![(base.clone(), total.saturating_add(fee_amt).max(1))],
                3 => {
                    funds.push(("zzextra".into(), 1));
                    funds.sort();
                }
                4 => funds = if funds.is_empty() { vec![(quote.clone(), total.saturating_add(fee_amt).max(1))] } else { vec![] },
                5 => {
                    let missing: Vec<&str> = POOL.iter().copied().filter(|a| !cfg.bid_attrs.iter().all(|x| self.spec.tables.holds(a, x))).collect();
                    if !missing.is_empty() {
                        sender = missing[pick(w[9], missing.len())].to_string();
                    }
                }
                6 => size += 1,
                7 => size = 0,
                8 if w[9] & 1 == 0 => price = format!("{}1", if price.contains('.') { pad_to(&price, self.spec.precision) } else { format!("{}.{}", price, "0".repeat(self.spec.precision as usize)) }),
                8 => price = surplus_decimals_price(w[9], w[10], self.spec.precision),
                9 => price = "0".into(),
                10 => price = format!("-{}", price),
                11 => price = ["abc", "", "1e5", "1,5", "1..2", " 1", "NaN", ".", "-"][pick(w[9], 9)].to_string(),
                12 => quote = "unsupported".into(),
                13 => base = cfg.convertibles.first().cloned().unwrap_or_else(|| "unsupported".into()),
                14 => {
                    if let Some(k) = book.bids.keys().next() {
                        id = k.clone();
                    }
                }
                15 => id = mangle_id(&id, pick(w[9], 6)),
                16 => quote_size += 1,
                17 => quote_size = quote_size.saturating_sub(1),
                18 => fee = None,
                19 => fee = Some((quote.clone(), fee_amt + 1)),
                20 => fee = if fee_amt > 0 { Some((quote.clone(), fee_amt - 1)) } else { Some((quote.clone(), 0)) },
                21 => fee = Some((base.clone(), fee_amt)),
                22 => {
                    // fee paid but not attached / attached but not stated
                    funds = self.escrow(&quote, total);
                }
                _ => {
                    if let Some(k) = book.asks.keys().next() {
                        if !book.bids.contains_key(k) {
                            id = k.clone();
                        }
                    }
                }
            }
        }
        Step::Execute {
            sender,
            funds,
            msg: wire::m_create_bid(&id, &base, fee.as_ref().map(|f| (f.0.as_str(), f.1)), &price, &quote, quote_size, size),
        }
    }

    fn do_match(&mut self, w: &[u32; OP_WORDS], book: &Book, cfg: &Cfg, faulty: bool, fw: u32) -> Step {
        let asks: Vec<&Ask> = book.asks.values().collect();
        let bids: Vec<&Bid> = book.bids.values().collect();
        if asks.is_empty() || bids.is_empty() {
            // a match on orders that do not exist
            return Step::Execute {
                sender: at(&cfg.executors, pick(w[7], cfg.executors.len()), "acct0"),
                funds: vec![],
                msg: wire::m_match(
                    &asks.first().map(|a| a.id.clone()).unwrap_or_else(|| uuid_of(999_999)),
                    &bids.first().map(|b| b.id.clone()).unwrap_or_else(|| uuid_of(999_998)),
                    "1",
                    1,
                ),
            };
        }
        // prefer crossing pairs
        let mut pairs: Vec<(&Ask, &Bid)> = vec![];
        for a in &asks {
            for b in &bids {
                if a.quote == b.quote_denom && a.class != AskClass::Pending && model_id_ok(&a.id) && model_id_ok(&b.id) {
                    if let (Parsed::Num(ap), Parsed::Num(bp)) = (parse(&a.price), parse(&b.price)) {
                        if ap.le(&bp) {
                            pairs.push((a, b));
                        }
                    }
                }
            }
        }
        let (a, b) = if !pairs.is_empty() && !(faulty && pick(fw, 16) == 0) {
            if self.spec.shape == 1 && gate(w[1].rotate_left(9), 800) {
                pairs[0]
            } else {
                pairs[pick(w[1], pairs.len())]
            }
        } else {
            (asks[pick(w[1], asks.len())], bids[pick(w[2], bids.len())])
        };
        let rem = b.rem_base().unwrap_or(0);
        let m = a.size.min(rem).max(1);
        let mut price = match weighted(w[4], &[55, 35, 5, 5]) {
            0 => a.price.clone(),
            1 => b.price.clone(),
            2 => format!("0{}", a.price),
            _ => {
                if b.price.contains('.') {
                    format!("{}0", b.price)
                } else {
                    format!("{}.0", b.price)
                }
            }
        };
        let inc = cfg.increment.max(1);
        let mut size = if gate(w[8], self.p.non_lot) && m > 1 {
            // any size from 1 to m
            1 + ((w[3] as u128 * m) >> 32).min(m - 1)
        } else {
            match weighted(w[3], &[55, 45]) {
                0 => m,
                _ => {
                    let lots = m / inc;
                    if lots >= 2 {
                        (1 + ((w[9] as u128 * (lots - 1)) >> 32)) * inc
                    } else {
                        m
                    }
                }
            }
        };
        if self.spec.shape == 1 && m > 3 * inc && gate(w[8].rotate_left(5), 850) {
            // a small bite, so that the pair can be worked on many times
            size = if gate(w[8].rotate_left(11), 500) { inc * (1 + (w[9] % 3) as u128) } else { 1 + (w[9] as u128 % (2 * inc)) };
            size = size.min(m);
        }
        let mut sender = at(&cfg.executors, pick(w[7], cfg.executors.len()), "acct0");
        let mut funds = vec![];
        let mut ask_id = a.id.clone();
        let mut bid_id = b.id.clone();
        for fw in fault_words(faulty, fw, w[11]) {
            match pick(fw, 16) {
                1 | 2 => sender = other_roles(book, cfg, &cfg.executors, w[9]),
                3 => size = m + 1,
                4 => size = 0,
                5 => size = a.size.max(rem) + 1,
                6 => {
                    if let Parsed::Num(ap) = parse(&a.price) {
                        if let Some(x) = ap.sub_pos(&Dec::tick(self.spec.precision)) {
                            if x.is_positive() {
                                price = x.to_plain_string();
                            }
                        }
                    }
                }
                7 => {
                    if let Parsed::Num(bp) = parse(&b.price) {
                        price = bp.add_pos(&Dec::tick(self.spec.precision)).to_plain_string();
                    }
                }
                8 => price = ["abc", "", "1e5", "NaN", "."][pick(w[9], 5)].to_string(),
                9 => funds = vec![(b.quote_denom.clone(), 1)],
                10 => ask_id = mangle_id(&ask_id, pick(w[9], 6)),
                11 => bid_id = mangle_id(&bid_id, pick(w[9], 6)),
                12 => {
                    if let Some(p) = asks.iter().find(|x| x.class == AskClass::Pending) {
                        ask_id = p.id.clone();
                        price = p.price.clone();
                    }
                }
                13 => {
                    // midpoint
                    if let (Parsed::Num(ap), Parsed::Num(bp)) = (parse(&a.price), parse(&b.price)) {
                        price = ap.add_pos(&bp).mul(&Dec { neg: false, mant: num::u(5), scale: 1 }).normalized().to_plain_string();
                    }
                }
                14 => std::mem::swap(&mut ask_id, &mut bid_id),
                _ => size = m.saturating_sub(1),
            }
        }
        Step::Execute {
            sender,
            funds,
            msg: wire::m_match(&ask_id, &bid_id, &price, size),
        }
    }

    fn reverse_ask(&mut self, kind: usize, w: &[u32; OP_WORDS], book: &Book, cfg: &Cfg, faulty: bool, fw: u32) -> Step {
        let asks: Vec<&Ask> = book.asks.values().collect();
        let (mut id, owner, remaining) = if asks.is_empty() {
            (uuid_of(999_997), POOL[0].to_string(), 0)
        } else {
            let a = asks[pick(w[1], asks.len())];
            (a.id.clone(), a.owner.clone(), a.size)
        };
        let executor = at(&cfg.executors, pick(w[7], cfg.executors.len()), "acct0");
        let mut sender = if kind == K_CANCEL_ASK { owner.clone() } else { executor };
        let mut funds = vec![];
        let inc = cfg.increment.max(1);
        let mut size: Option<u128> = None;
        if kind == K_REJECT_ASK {
            let lots = remaining / inc;
            // whole lots strictly inside the remainder; when the remainder is off the lot grid
            // (after a non-lot fill) taking every whole lot still leaves something behind
            let max_lots = if remaining % inc != 0 { lots } else { lots.saturating_sub(1) };
            size = match weighted(w[3], &[35, 65]) {
                0 => None,
                _ => {
                    if max_lots >= 1 {
                        Some((1 + ((w[9] as u128 * max_lots) >> 32).min(max_lots - 1)) * inc)
                    } else {
                        Some(remaining.max(1))
                    }
                }
            };
        }
        for fw in fault_words(faulty, fw, w[11]) {
            match pick(fw, 10) {
                0..=3 => {
                    let auth: Vec<String> = if kind == K_CANCEL_ASK { vec![owner.clone()] } else { cfg.executors.clone() };
                    sender = other_roles(book, cfg, &auth, w[9]);
                }
                4 => funds = vec![(cfg.base.clone(), 1)],
                5 => id = mangle_id(&id, pick(w[9], 6)),
                6 if kind == K_REJECT_ASK => size = Some(remaining + inc),
                7 if kind == K_REJECT_ASK => size = Some(0),
                8 if kind == K_REJECT_ASK => size = Some(size.unwrap_or(remaining).saturating_add(1)),
                9 if kind == K_REJECT_ASK => size = Some(remaining + 1),
                _ => id = uuid_of(888_888),
            }
        }
        let msg = match kind {
            K_CANCEL_ASK => wire::m_cancel_ask(&id),
            K_EXPIRE_ASK => wire::m_expire_ask(&id),
            _ => wire::m_reject_ask(&id, size),
        };
        Step::Execute { sender, funds, msg }
    }

    fn reverse_bid(&mut self, kind: usize, w: &[u32; OP_WORDS], book: &Book, cfg: &Cfg, faulty: bool, fw: u32) -> Step {
        let bids: Vec<&Bid> = book.bids.values().collect();
        let (mut id, owner, remaining, qd) = if bids.is_empty() {
            (uuid_of(999_996), POOL[0].to_string(), 0, crate::gen::at(&cfg.quotes, 0, "quote1"))
        } else {
            let b = bids[pick(w[1], bids.len())];
            (b.id.clone(), b.owner.clone(), b.rem_base().unwrap_or(0), b.quote_denom.clone())
        };
        let executor = at(&cfg.executors, pick(w[7], cfg.executors.len()), "acct0");
        let mut sender = if kind == K_CANCEL_BID { owner.clone() } else { executor };
        let mut funds = vec![];
        let inc = cfg.increment.max(1);
        let mut size: Option<u128> = None;
        if kind == K_REJECT_BID {
            let lots = remaining / inc;
            // whole lots strictly inside the remainder; when the remainder is off the lot grid
            // (after a non-lot fill) taking every whole lot still leaves something behind
            let max_lots = if remaining % inc != 0 { lots } else { lots.saturating_sub(1) };
            size = match weighted(w[3], &[30, 70]) {
                0 => None,
                _ => {
                    if max_lots >= 1 {
                        Some((1 + ((w[9] as u128 * max_lots) >> 32).min(max_lots - 1)) * inc)
                    } else {
                        Some(remaining.max(1))
                    }
                }
            };
        }
        for fw in fault_words(faulty, fw, w[11]) {
            match pick(fw, 10) {
                0..=3 => {
                    let auth: Vec<String> = if kind == K_CANCEL_BID { vec![owner.clone()] } else { cfg.executors.clone() };
                    sender = other_roles(book, cfg, &auth, w[9]);
                }
                4 => funds = vec![(qd.clone(), 1)],
                5 => id = mangle_id(&id, pick(w[9], 6)),
                6 if kind == K_REJECT_BID => size = Some(remaining + inc),
                7 if kind == K_REJECT_BID => size = Some(0),
                8 if kind == K_REJECT_BID => size = Some(size.unwrap_or(remaining).saturating_add(1)),
                9 if kind == K_REJECT_BID => size = Some(remaining + 1),
                _ => id = uuid_of(888_887),
            }
        }
        let msg = match kind {
            K_CANCEL_BID => wire::m_cancel_bid(&id),
            K_EXPIRE_BID => wire::m_expire_bid(&id),
            _ => wire::m_reject_bid(&id, size),
        };
        Step::Execute { sender, funds, msg }
    }

    fn approve(&mut self, w: &[u32; OP_WORDS], book: &Book, cfg: &Cfg, faulty: bool, fw: u32) -> Step {
        let pending: Vec<&Ask> = book.asks.values().filter(|a| a.class == AskClass::Pending).collect();
        let all: Vec<&Ask> = book.asks.values().collect();
        let target: Option<&Ask> = if !pending.is_empty() {
            Some(pending[pick(w[1], pending.len())])
        } else if !all.is_empty() {
            Some(all[pick(w[1], all.len())])
        } else {
            None
        };
        let (mut id, mut size) = match target {
            Some(a) => (a.id.clone(), a.size),
            None => (uuid_of(999_995), 1),
        };
        let mut base = cfg.base.clone();
        let mut sender = if cfg.approvers.is_empty() { POOL[0].to_string() } else { cfg.approvers[pick(w[7], cfg.approvers.len())].clone() };
        let mut funds = self.escrow(&base, size);
        for fw in fault_words(faulty, fw, w[11]) {
            match pick(fw, 13) {
                0..=2 => sender = other_roles(book, cfg, &cfg.approvers, w[9]),
                3 => {
                    size += 1;
                    funds = self.escrow(&base, size);
                }
                4 => {
                    size = size.saturating_sub(1);
                    funds = self.escrow(&base, size);
                }
                5 => funds = bump(funds, &base, 1, true),
                6 => funds = bump(funds, &base, 1, false),
                7 => {
                    funds.push(("zzextra".into(), 1));
                    funds.sort();
                }
                8 => {
                    if let Some(a) = target {
                        base = a.base.clone();
                        funds = self.escrow(&base, size);
                    }
                }
                9 => {
                    // an ask that is plain or already approved
                    if let Some(a) = all.iter().find(|a| a.class != AskClass::Pending) {
                        id = a.id.clone();
                        size = a.size;
                        funds = self.escrow(&base, size);
                    }
                }
                10 => id = mangle_id(&id, pick(w[9], 6)),
                11 if cfg.base.len() > 1 => {
                    // a base string that is only part of the base denomination's name, escrowed
                    // in that coin
                    base = cfg.base[..cfg.base.len() - 1].to_string();
                    funds = self.escrow(&base, size);
                }
                _ => funds = if funds.is_empty() { vec![(base.clone(), size.max(1))] } else { vec![] },
            }
        }
        Step::Execute {
            sender,
            funds,
            msg: wire::m_approve_ask(&id, &base, size),
        }
    }

    fn modify(&mut self, w: &[u32; OP_WORDS], book: &Book, cfg: &Cfg, faulty: bool, fw: u32) -> Step {
        let mut ch = CfgChange::default();
        let mask = w[1];
        let respell = |r: &str, k: u32| -> String {
            match k % 3 {
                0 => r.to_string(),
                1 => {
                    if r.contains('.') {
                        format!("{}0", r)
                    } else {
                        format!("{}.0", r)
                    }
                }
                _ => format!("0{}", r),
            }
        };
        if mask & 1 != 0 {
            let mut v = cfg.approvers.clone();
            match pick(w[2], 5) {
                0 => v.push(POOL[pick(w[9], 8)].to_string()),
                1 => v.reverse(),
                2 => {
                    if !v.is_empty() {
                        v.remove(0);
                    }
                    if v.is_empty() {
                        v.push(POOL[pick(w[9], 8)].to_string());
                    }
                }
                3 => {
                    if let Some(d) = v.first().cloned() {
                        v.push(d);
                    }
                }
                _ => v = vec![],
            }
            // now and then an entry that is no valid address
            if gate(w[2].rotate_left(15), 80) {
                v.push(["ab", "APPROVER9", ""][pick(w[9].rotate_left(5), 3)].to_string());
            }
            ch.approvers = Some(v);
        }
        if mask & 2 != 0 {
            let mut v = cfg.executors.clone();
            match pick(w[3], 5) {
                0 => v.push(POOL[pick(w[10], 8)].to_string()),
                1 => v.reverse(),
                2 => {
                    // shrink, but keep someone who can still operate the book
                    if v.len() > 1 {
                        v.remove(0);
                    } else {
                        v.push(POOL[pick(w[10], 8)].to_string());
                    }
                }
                3 => {
                    if v.len() >= 2 && gate(w[10].rotate_left(9), 500) {
                        // same length, somebody dropped, somebody named twice
                        let n = v.len();
                        v[n - 1] = v[0].clone();
                    } else {
                        v = vec![POOL[pick(w[10], 8)].to_string(), at(&v, 0, "acct0")]
                    }
                }
                _ => v = vec![],
            }
            if gate(w[3].rotate_left(15), 80) {
                if gate(w[3].rotate_left(21), 400) {
                    v = vec!["ab".to_string(), "EXEC9".to_string()];
                } else {
                    v.push(["ab", "EXEC9", ""][pick(w[10].rotate_left(5), 3)].to_string());
                }
            }
            ch.executors = Some(v);
        }
        if mask & 4 != 0 {
            let (r, a) = match (&cfg.ask_fee, pick(w[4], 7)) {
                (Some((a, r)), 0) => (respell(r, w[8]), a.clone()),
                (Some((_, r)), 1) => (respell(r, w[8]), POOL[3 + pick(w[8], 5)].to_string()),
                (_, 2) => (String::new(), String::new()),
                // half-empty pairs: the installed rate (respelled) with an empty account, an
                // empty rate with an account
                (Some((_, r)), 5) => (respell(r, w[8]), String::new()),
                (Some((a, _)), 6) => (String::new(), a.clone()),
                (_, _) => (rate_from(w[8], w[9], false), POOL[3 + pick(w[9], 5)].to_string()),
            };
            ch.ask_fee_rate = Some(r);
            ch.ask_fee_account = Some(a);
        }
        if mask & 8 != 0 {
            let (r, a) = match (&cfg.bid_fee, pick(w[4].rotate_left(7), 7)) {
                (Some((a, r)), 0) => (respell(r, w[8]), a.clone()),
                (Some((_, r)), 1) => (respell(r, w[8]), POOL[3 + pick(w[8], 5)].to_string()),
                (_, 2) => (String::new(), String::new()),
                (Some((_, r)), 5) => (respell(r, w[8]), String::new()),
                (Some((a, _)), 6) => (String::new(), a.clone()),
                (_, _) => (rate_from(w[8].rotate_left(5), w[9], false), POOL[3 + pick(w[9], 5)].to_string()),
            };
            ch.bid_fee_rate = Some(r);
            ch.bid_fee_account = Some(a);
        }
        if mask & 16 != 0 {
            ch.ask_attrs = Some(match pick(w[10], 5) {
                0 => cfg.ask_attrs.clone(),
                1 => vec![],
                2 => vec!["ask.kyc".to_string()],
                3 => vec!["ask.kyc".to_string(), "ask.kyc".to_string()],
                _ => vec!["Ask.KYC".to_string(), "ask.kyc ".to_string()],
            });
        }
        if mask & 32 != 0 {
            ch.bid_attrs = Some(match pick(w[11], 4) {
                0 => cfg.bid_attrs.clone(),
                1 => vec![],
                2 => vec!["bid.kyc".to_string()],
                _ => vec!["bid.kyc".to_string(), "bid.kyc".to_string()],
            });
        }
        let mut sender = at(&cfg.executors, pick(w[7], cfg.executors.len()), "acct0");
        for fw in fault_words(faulty, fw, w[11]) {
            match pick(fw, 6) {
                0..=2 => sender = other_roles(book, cfg, &cfg.executors, w[9]),
                3 => ch.ask_fee_account = None, // half pair
                4 => ch.bid_fee_rate = None,
                _ => {
                    ch.ask_fee_rate = Some("abc".into());
                    ch.ask_fee_account = Some(POOL[4].into());
                }
            }
        }
        Step::Execute {
            sender,
            funds: vec![],
            msg: ch.to_modify(),
        }
    }
}

/// hyphenated spelling of an un-hyphenated (legacy) key on the book, if it is still free
fn twin_of_legacy<'a>(keys: impl Iterator<Item = &'a String>, taken: impl Fn(&str) -> bool) -> Option<String> {
    for k in keys {
        if k.len() == 32 && k.bytes().all(|b| b.is_ascii_hexdigit()) {
            let t = format!("{}-{}-{}-{}-{}", &k[0..8], &k[8..12], &k[12..16], &k[16..20], &k[20..32]);
            if !taken(&t) {
                return Some(t);
            }
        }
    }
    None
}

/// a price with 1..3 decimals more than the market allows and a mantissa of 18 to 24 digits
/// (beyond 64 bits most of the time); the last digit is never zero, so it is certainly too fine
fn surplus_decimals_price(a: u32, b: u32, precision: u32) -> String {
    let digits = 18 + (a % 7) as usize;
    let mut x = (a as u64) << 32 | b as u64 | 1;
    let mut m = String::new();
    for i in 0..digits {
        x = x.wrapping_mul(6364136223846793005).wrapping_add(1442695040888963407);
        let d = ((x >> 33) % 10) as u8;
        let d = if (i == 0 || i == digits - 1) && d == 0 { 7 } else { d };
        m.push((b'0' + d) as char);
    }
    let decimals = (precision + 1 + (b % 3)) as usize;
    if decimals >= m.len() {
        format!("0.{}{}", "0".repeat(decimals - m.len()), m)
    } else {
        format!("{}.{}", &m[..m.len() - decimals], &m[m.len() - decimals..])
    }
}

fn model_id_ok(id: &str) -> bool {
    crate::model::is_canonical_uuid(id)
}

fn pad_to(price: &str, precision: u32) -> String {
    let d = price.split('.').nth(1).map(|x| x.len()).unwrap_or(0) as u32;
    if d >= precision {
        price.to_string()
    } else {
        format!("{}{}", price, "0".repeat((precision - d) as usize))
    }
}

fn bump(mut funds: Vec<(String, u128)>, denom: &str, by: u128, up: bool) -> Vec<(String, u128)> {
    if funds.is_empty() {
        return vec![(denom.to_string(), by)];
    }
    if up {
        funds[0].1 = funds[0].1.saturating_add(by);
    } else {
        funds[0].1 = funds[0].1.saturating_sub(by);
        if funds[0].1 == 0 {
            funds.clear();
        }
    }
    funds
}

/// decode a libFuzzer input into a tape (little-endian words; missing bytes are zero)
pub fn tape_from_bytes(data: &[u8]) -> Tape {
    let word = |i: usize| -> u32 {
        let mut b = [0u8; 4];
        for (k, x) in b.iter_mut().enumerate() {
            *x = *data.get(4 * i + k).unwrap_or(&0);
        }
        u32::from_le_bytes(b)
    };
    let mut world = [0u32; WORLD_WORDS];
    for (i, w) in world.iter_mut().enumerate() {
        *w = word(i);
    }
    let n_ops = data.len().saturating_sub(4 * WORLD_WORDS) / (4 * OP_WORDS);
    let mut ops = Vec::with_capacity(n_ops.min(160));
    for k in 0..n_ops.min(160) {
        let mut op = [0u32; OP_WORDS];
        for (i, w) in op.iter_mut().enumerate() {
            *w = word(WORLD_WORDS + k * OP_WORDS + i);
        }
        ops.push(op);
    }
    Tape { world, ops }
}

// ---------------------------------------------------------------- running a tape

/// Execute a history tape under the observer of `prop`; returns the runner with its
/// trace, violations, labels and counters.
pub fn run_history(prop: Prop, p: &Profile, tape: &Tape) -> Runner {
    let spec = build_world(&tape.world, p);
    let mut r = Runner::new(prop, spec.tables.clone());
    r.judge.probe_budget = p.probe_budget;
    r.judge.probe_seed = (tape.world[30] as u64) << 32 | tape.world[31] as u64 | 1;
    let mut it = Interp::new(p, spec);
    r.step(Step::Instantiate {
        sender: "admin".into(),
        msg: it.spec.instantiate.clone(),
    });
    let book = r.book();
    if let Some(cfg) = &book.cfg {
        for s in it.seeds(&tape.world, cfg) {
            r.step(s);
        }
        if prop == Prop::C06 && !(book.asks.is_empty() && book.bids.is_empty() && r.book().asks.is_empty() && r.book().bids.is_empty()) {
            let b = r.book();
            let w = r.world.clone();
            crate::props::probes::exits(&mut r.judge, &w, &b, "seed");
        }
    }
    // one history in sixteen is upgraded in the middle: the version record is set to a release
    // whose stored formats are the current ones, `migrate` is called (with no overrides, with the
    // approver list in another order, or with a fee account replaced under the installed rate)
    // and the history goes on over the migrated book, judged by the same observers
    let n_ops = tape.ops.len().min(p.max_ops);
    let migrate_at = if !matches!(prop, Prop::C12 | Prop::C13 | Prop::C14 | Prop::C15) && tape.world[28] % 16 == 3 && n_ops >= 4 {
        Some(n_ops / 2 + (tape.world[29] as usize % 3))
    } else {
        None
    };
    for (i, op) in tape.ops.iter().take(p.max_ops).enumerate() {
        if Some(i) == migrate_at {
            mid_history_migration(&mut r, &tape.world);
        }
        let book = r.book();
        if let Some(step) = it.concretise(op, &book) {
            r.step(step);
        }
    }
    r
}

fn mid_history_migration(r: &mut Runner, w: &[u32; WORLD_WORDS]) {
    let book = r.book();
    let cfg = match &book.cfg {
        Some(c) => c.clone(),
        None => return,
    };
    let open = book.asks.len() + book.bids.len();
    match pick(w[29].rotate_left(9), 4) {
        0 => {}
        k => { r.step(Step::SetVersion {
            version: Some(["0.19.2", "1.0.0", "0.20.0"][k - 1].to_string()),
            definition: "ats_smart_contract".into(),
        }); }
    }
    let mut ch = crate::wire::CfgChange::default();
    match pick(w[29].rotate_left(17), 7) {
        0 | 1 => {}
        5 | 6 => {
            // the fee of one side is switched off while orders placed under it are open
            if pick(w[29].rotate_left(3), 2) == 0 {
                ch.bid_fee_rate = Some(String::new());
                ch.bid_fee_account = Some(String::new());
            } else {
                ch.ask_fee_rate = Some(String::new());
                ch.ask_fee_account = Some(String::new());
            }
            r.judge.label("mid-history-migration-clears-a-fee");
        }
        2 => {
            if cfg.approvers.len() > 1 {
                let mut v = cfg.approvers.clone();
                v.reverse();
                ch.approvers = Some(v);
            }
        }
        k => {
            let cur = if k == 3 { &cfg.ask_fee } else { &cfg.bid_fee };
            if let Some((acc, rate)) = cur {
                let other = POOL[3..].iter().find(|x| **x != acc.as_str()).unwrap().to_string();
                if k == 3 {
                    ch.ask_fee_rate = Some(rate.clone());
                    ch.ask_fee_account = Some(other);
                } else {
                    ch.bid_fee_rate = Some(rate.clone());
                    ch.bid_fee_account = Some(other);
                }
                r.judge.label("mid-history-migration-replaces-fee-account");
            }
        }
    }
    let out = r.step(Step::Migrate { msg: ch.to_migrate() });
    if out.map(|o| o.accepted()).unwrap_or(false) {
        r.judge.label("mid-history-migration");
        if open > 0 {
            r.judge.label("mid-history-migration-over-open-orders");
        }
    } else {
        r.judge.label("mid-history-migration-refused");
    }
}

/// one line per request kind: how the history went (for samples in evidence)
pub fn summarize(r: &Runner) -> Value {
    let steps: Vec<Value> = r
        .trace
        .iter()
        .map(|s| match s {
            Step::Execute { sender, funds, msg } => {
                json!({"sender": sender, "funds": funds.iter().map(|(d, a)| format!("{}{}", a, d)).collect::<Vec<_>>(), "msg": msg})
            }
            other => other.to_json(),
        })
        .collect();
    json!({"tables": r.tables_json, "steps": steps})
}

#[allow(dead_code)]
fn _unused(_: &dyn Fn(u128, u128, u128) -> crate::num::ProRata) {
    let _ = prorata;
}
