//! Reference model: a deliberately naive transition function of the order book,
//! written from the README, the JSON schemas and the property statements. It is
//! applied to the book *as read back from the real storage by the harness's own
//! decoders*, and yields a verdict (must accept / must refuse / no demand) and
//! the set of admissible effects. All arithmetic is exact (`num.rs`).

use crate::chain::{Move, Tables, CONTRACT};
use crate::num::{self, parse, prorata, Dec, Parsed};
use crate::wire::{Ask, AskClass, Bid, Book, Cfg, CfgChange};
use cosmwasm_std::Int256;
use serde_json::Value;
use std::collections::BTreeMap;

// ---------------------------------------------------------------- requests

#[derive(Clone, Debug, PartialEq, Eq)]
pub enum Req {
    CreateAsk {
        id: String,
        base: String,
        quote: String,
        price: String,
        size: u128,
    },
    CreateBid {
        id: String,
        base: String,
        fee: Option<(String, u128)>,
        price: String,
        quote: String,
        quote_size: u128,
        size: u128,
    },
    ApproveAsk {
        id: String,
        base: String,
        size: u128,
    },
    CancelAsk {
        id: String,
    },
    CancelBid {
        id: String,
    },
    ExpireAsk {
        id: String,
    },
    ExpireBid {
        id: String,
    },
    RejectAsk {
        id: String,
        size: Option<u128>,
    },
    RejectBid {
        id: String,
        size: Option<u128>,
    },
    Match {
        ask_id: String,
        bid_id: String,
        price: String,
        size: u128,
    },
    Modify(CfgChange),
    /// not one of the request forms (the chain refuses it before the contract logic)
    Unparsed,
}

fn gs(v: &Value, k: &str) -> Option<String> {
    v.get(k)?.as_str().map(|s| s.to_string())
}
fn gn(v: &Value, k: &str) -> Option<u128> {
    v.get(k)?.as_str()?.parse().ok()
}
fn gon(v: &Value, k: &str) -> Option<Option<u128>> {
    match v.get(k) {
        None | Some(Value::Null) => Some(None),
        Some(x) => Some(Some(x.as_str()?.parse().ok()?)),
    }
}

impl Req {
    pub fn from_value(v: &Value) -> Req {
        Self::try_from_value(v).unwrap_or(Req::Unparsed)
    }
    fn try_from_value(v: &Value) -> Option<Req> {
        let o = v.as_object()?;
        if o.len() != 1 {
            return None;
        }
        let (k, b) = o.iter().next()?;
        Some(match k.as_str() {
            "create_ask" => Req::CreateAsk {
                id: gs(b, "id")?,
                base: gs(b, "base")?,
                quote: gs(b, "quote")?,
                price: gs(b, "price")?,
                size: gn(b, "size")?,
            },
            "create_bid" => Req::CreateBid {
                id: gs(b, "id")?,
                base: gs(b, "base")?,
                fee: match b.get("fee") {
                    None | Some(Value::Null) => None,
                    Some(f) => Some((gs(f, "denom")?, gn(f, "amount")?)),
                },
                price: gs(b, "price")?,
                quote: gs(b, "quote")?,
                quote_size: gn(b, "quote_size")?,
                size: gn(b, "size")?,
            },
            "approve_ask" => Req::ApproveAsk {
                id: gs(b, "id")?,
                base: gs(b, "base")?,
                size: gn(b, "size")?,
            },
            "cancel_ask" => Req::CancelAsk { id: gs(b, "id")? },
            "cancel_bid" => Req::CancelBid { id: gs(b, "id")? },
            "expire_ask" => Req::ExpireAsk { id: gs(b, "id")? },
            "expire_bid" => Req::ExpireBid { id: gs(b, "id")? },
            "reject_ask" => Req::RejectAsk {
                id: gs(b, "id")?,
                size: gon(b, "size")?,
            },
            "reject_bid" => Req::RejectBid {
                id: gs(b, "id")?,
                size: gon(b, "size")?,
            },
            "execute_match" => Req::Match {
                ask_id: gs(b, "ask_id")?,
                bid_id: gs(b, "bid_id")?,
                price: gs(b, "price")?,
                size: gn(b, "size")?,
            },
            "modify_contract" => Req::Modify(CfgChange::from_value(b)),
            _ => return None,
        })
    }

    pub fn kind(&self) -> &'static str {
        match self {
            Req::CreateAsk { .. } => "create_ask",
            Req::CreateBid { .. } => "create_bid",
            Req::ApproveAsk { .. } => "approve_ask",
            Req::CancelAsk { .. } => "cancel_ask",
            Req::CancelBid { .. } => "cancel_bid",
            Req::ExpireAsk { .. } => "expire_ask",
            Req::ExpireBid { .. } => "expire_bid",
            Req::RejectAsk { .. } => "reject_ask",
            Req::RejectBid { .. } => "reject_bid",
            Req::Match { .. } => "execute",
            Req::Modify(_) => "modify_contract",
            Req::Unparsed => "unparsed",
        }
    }
    /// (ask ids named, bid ids named)
    pub fn named(&self) -> (Vec<String>, Vec<String>) {
        match self {
            Req::CreateAsk { id, .. }
            | Req::ApproveAsk { id, .. }
            | Req::CancelAsk { id }
            | Req::ExpireAsk { id }
            | Req::RejectAsk { id, .. } => (vec![id.clone()], vec![]),
            Req::CreateBid { id, .. }
            | Req::CancelBid { id }
            | Req::ExpireBid { id }
            | Req::RejectBid { id, .. } => (vec![], vec![id.clone()]),
            Req::Match { ask_id, bid_id, .. } => (vec![ask_id.clone()], vec![bid_id.clone()]),
            Req::Modify(_) | Req::Unparsed => (vec![], vec![]),
        }
    }
}

// ---------------------------------------------------------------- flows

pub type Flows = BTreeMap<(String, String), Int256>;

pub fn flow_add(f: &mut Flows, from: &str, to: &str, denom: &str, amount: u128) {
    if amount == 0 {
        return;
    }
    let a = Int256::from(amount);
    *f.entry((from.to_string(), denom.to_string()))
        .or_insert_with(Int256::zero) -= a;
    *f.entry((to.to_string(), denom.to_string()))
        .or_insert_with(Int256::zero) += a;
}

pub fn flows_of_moves(moves: &[Move]) -> Flows {
    let mut f = Flows::new();
    for m in moves {
        flow_add(&mut f, &m.from, &m.to, &m.denom, m.amount);
    }
    prune(f)
}

pub fn prune(f: Flows) -> Flows {
    f.into_iter().filter(|(_, v)| !v.is_zero()).collect()
}

// ---------------------------------------------------------------- expectation

#[derive(Clone, Debug, PartialEq, Eq)]
pub enum Verdict {
    Accept,
    Refuse(String),
    /// no accept/refuse demand (outside the numerically decidable zone, or the
    /// statements are silent)
    Either(String),
}

#[derive(Clone, Debug)]
pub struct Effects {
    pub flows: Flows,
    pub asks: BTreeMap<String, Ask>,
    pub bids: BTreeMap<String, Bid>,
    pub cfg: Cfg,
    /// for a match: fee paid to the ask-fee / bid-fee account in this alternative
    pub ask_fee: u128,
    pub bid_fee_paid: u128,
    /// for a bid reversal / improved match: fee handed back to the bid owner
    pub fee_returned: u128,
}

#[derive(Clone, Debug, Default)]
pub struct MatchFacts {
    pub gross: u128,
    pub ask_fee: u128,
    pub improved: bool,
    pub bid_gross: u128,
    pub convertible: bool,
    pub seller_side: String,
    pub buyer: String,
    pub ask_fee_account: Option<String>,
    pub bid_fee_account: Option<String>,
    /// held bid fee before the match
    pub held_fee: u128,
    /// pro-rata quantities judged: (fee, remaining quote after, quote)
    pub tie_any: bool,
    pub fee_zero_rounded: bool,
    pub ask_fee_is_gross: bool,
    pub coinciding: bool,
}

#[derive(Clone, Debug)]
pub struct Expect {
    pub verdict: Verdict,
    /// admissible effects when accepted (empty when no effect oracle applies:
    /// out-of-zone or unparsed requests)
    pub alts: Vec<Effects>,
    /// conditions of the statement that fail (for diagnostics / C03)
    pub failing: Vec<String>,
    /// reason the request is outside the decidable zone, if it is
    pub zone: Option<String>,
    /// a product of the request needs more than 96 bits (whatever the verdict)
    pub beyond96: bool,
    pub labels: Vec<&'static str>,
    pub match_facts: Option<MatchFacts>,
    /// bid fee facts for create_bid: expected fee
    pub expected_fee: Option<u128>,
    /// for a match: the ask fee the configured rate gives on the executed gross (exact
    /// arithmetic), whenever it can be computed -- whatever the verdict
    pub expected_ask_fee: Option<(u128, Option<String>)>,
}

impl Expect {
    fn either(why: &str) -> Expect {
        Expect {
            verdict: Verdict::Either(why.to_string()),
            alts: vec![],
            failing: vec![],
            zone: Some(why.to_string()),
            beyond96: false,
            labels: vec![],
            match_facts: None,
            expected_fee: None,
            expected_ask_fee: None,
        }
    }
    fn refuse(failing: Vec<String>) -> Expect {
        Expect {
            verdict: Verdict::Refuse(failing.join("; ")),
            alts: vec![],
            failing,
            zone: None,
            beyond96: false,
            labels: vec![],
            match_facts: None,
            expected_fee: None,
            expected_ask_fee: None,
        }
    }
}

pub fn is_canonical_uuid(s: &str) -> bool {
    let b = s.as_bytes();
    if b.len() != 36 {
        return false;
    }
    for (i, c) in b.iter().enumerate() {
        if i == 8 || i == 13 || i == 18 || i == 23 {
            if *c != b'-' {
                return false;
            }
        } else if !(c.is_ascii_digit() || (b'a'..=b'f').contains(c)) {
            return false;
        }
    }
    true
}

pub const TWO96: u128 = 1u128 << 96;

pub struct Ctx<'a> {
    pub book: &'a Book,
    pub tables: &'a Tables,
    pub sender: &'a str,
    pub funds: &'a [(String, u128)],
}

/// classification of a price string against a precision
enum PriceCheck {
    Ok(Dec),
    Bad(String),
    Zone(String),
}

fn check_price(s: &str, precision: u128) -> PriceCheck {
    match parse(s) {
        Parsed::Garbage => PriceCheck::Bad(format!("price: {:?} is not a number", s)),
        Parsed::Unclear => PriceCheck::Zone(format!("price string {:?} outside the grammar", s)),
        Parsed::Num(d) => {
            if !d.is_positive() {
                return PriceCheck::Bad(format!("price: {:?} is not positive", s));
            }
            if precision > 28 {
                return PriceCheck::Zone("precision > 28".into());
            }
            let scaled = d.mul(&Dec {
                neg: false,
                mant: num::pow10(precision as u32),
                scale: 0,
            });
            if !scaled.representable() {
                return PriceCheck::Zone(format!(
                    "price {:?} x 10^{} not representable in 96 bits",
                    s, precision
                ));
            }
            if !scaled.is_integer() {
                return PriceCheck::Bad(format!(
                    "price: {:?} has more than {} decimals",
                    s, precision
                ));
            }
            PriceCheck::Ok(d)
        }
    }
}

fn rate_of(fee: &Option<(String, String)>) -> Result<Dec, String> {
    match fee {
        None => Ok(Dec::zero()),
        Some((_, r)) => match parse(r) {
            Parsed::Num(d) => Ok(d),
            _ => Err(format!("configured rate {:?} outside the grammar", r)),
        },
    }
}

pub fn rate_num(fee: &Option<(String, String)>) -> Option<Dec> {
    rate_of(fee).ok()
}

fn base_effects(ctx: &Ctx, cfg: &Cfg) -> Effects {
    let mut flows = Flows::new();
    for (d, a) in ctx.funds {
        flow_add(&mut flows, ctx.sender, CONTRACT, d, *a);
    }
    Effects {
        flows,
        asks: ctx.book.asks.clone(),
        bids: ctx.book.bids.clone(),
        cfg: cfg.clone(),
        ask_fee: 0,
        bid_fee_paid: 0,
        fee_returned: 0,
    }
}

/// exact escrow demanded of the sender: attached funds of exactly one coin for ordinary
/// denominations, no funds (pull transfer) for restricted markers
fn funds_ok(ctx: &Ctx, denom: &str, amount: u128) -> bool {
    if ctx.tables.restricted(denom) {
        ctx.funds.is_empty()
    } else {
        ctx.funds.len() == 1 && ctx.funds[0].0 == denom && ctx.funds[0].1 == amount
    }
}

fn escrow_flow(ctx: &Ctx, e: &mut Effects, denom: &str, amount: u128) {
    // attached funds are already in the base effects; a restricted marker is pulled in
    if ctx.tables.restricted(denom) {
        flow_add(&mut e.flows, ctx.sender, CONTRACT, denom, amount);
    }
}

pub fn expect(ctx: &Ctx, req: &Req) -> Expect {
    let mut e = expect_inner(ctx, req);
    e.beyond96 = e.failing.iter().any(|f| f.starts_with("beyond96")) || e.zone.as_deref().map(|z| z.contains("not representable")).unwrap_or(false);
    e
}

fn expect_inner(ctx: &Ctx, req: &Req) -> Expect {
    let cfg = match &ctx.book.cfg {
        Some(c) => c,
        None => return Expect::either("no configuration stored"),
    };
    match req {
        Req::Unparsed => {
            let mut e = Expect::either("request does not parse");
            e.verdict = Verdict::Refuse("request does not parse".into());
            e.zone = None;
            e
        }
        Req::CreateAsk {
            id,
            base,
            quote,
            price,
            size,
        } => expect_create_ask(ctx, cfg, id, base, quote, price, *size),
        Req::CreateBid {
            id,
            base,
            fee,
            price,
            quote,
            quote_size,
            size,
        } => expect_create_bid(ctx, cfg, id, base, fee, price, quote, *quote_size, *size),
        Req::ApproveAsk { id, base, size } => expect_approve(ctx, cfg, id, base, *size),
        Req::CancelAsk { id } => expect_reverse_ask(ctx, cfg, id, RevKind::Cancel, None),
        Req::ExpireAsk { id } => expect_reverse_ask(ctx, cfg, id, RevKind::Expire, None),
        Req::RejectAsk { id, size } => expect_reverse_ask(ctx, cfg, id, RevKind::Reject, *size),
        Req::CancelBid { id } => expect_reverse_bid(ctx, cfg, id, RevKind::Cancel, None),
        Req::ExpireBid { id } => expect_reverse_bid(ctx, cfg, id, RevKind::Expire, None),
        Req::RejectBid { id, size } => expect_reverse_bid(ctx, cfg, id, RevKind::Reject, *size),
        Req::Match {
            ask_id,
            bid_id,
            price,
            size,
        } => expect_match(ctx, cfg, ask_id, bid_id, price, *size),
        Req::Modify(ch) => expect_modify(ctx, cfg, ch),
    }
}

fn finish(
    failing: Vec<String>,
    zone: Option<String>,
    alts: Vec<Effects>,
    labels: Vec<&'static str>,
) -> Expect {
    if !failing.is_empty() {
        // a failing stated condition is decisive whatever the zone
        let mut e = Expect::refuse(failing);
        e.labels = labels;
        return e;
    }
    if let Some(z) = zone {
        let mut e = Expect::either(&z);
        e.labels = labels;
        return e;
    }
    Expect {
        verdict: Verdict::Accept,
        alts,
        failing: vec![],
        zone: None,
        beyond96: false,
        labels,
        match_facts: None,
        expected_fee: None,
        expected_ask_fee: None,
    }
}

fn holds_all(ctx: &Ctx, required: &[String]) -> bool {
    required.iter().all(|a| ctx.tables.holds(ctx.sender, a))
}

fn expect_create_ask(
    ctx: &Ctx,
    cfg: &Cfg,
    id: &str,
    base: &str,
    quote: &str,
    price: &str,
    size: u128,
) -> Expect {
    let mut failing = vec![];
    let mut zone = None;
    let mut labels = vec![];
    if !is_canonical_uuid(id) {
        failing.push("id: not a canonical hyphenated UUID".into());
    } else if ctx.book.asks.contains_key(id) {
        failing.push("id: already on the ask side".into());
        labels.push("duplicate-id");
    }
    if base.is_empty() || !(base == cfg.base || cfg.convertibles.iter().any(|c| c == base)) {
        failing.push("denom: base denomination not traded".into());
    }
    if quote.is_empty() || !cfg.quotes.iter().any(|q| q == quote) {
        failing.push("denom: quote denomination not traded".into());
    }
    match check_price(price, cfg.precision) {
        PriceCheck::Ok(_) => {}
        PriceCheck::Bad(w) => failing.push(w),
        PriceCheck::Zone(w) => zone = Some(w),
    }
    if size == 0 || cfg.increment == 0 || size % cfg.increment != 0 {
        failing.push("size: not a positive multiple of the increment".into());
    }
    if !base.is_empty() && !funds_ok(ctx, base, size) {
        failing.push("funds: escrow is not exactly the size in the base denomination".into());
    }
    if !holds_all(ctx, &cfg.ask_attrs) {
        failing.push("attr: sender lacks a required attribute".into());
    }
    if ctx.tables.restricted(base) {
        labels.push("restricted-escrow");
    }
    let mut e = base_effects(ctx, cfg);
    escrow_flow(ctx, &mut e, base, size);
    e.asks.insert(
        id.to_string(),
        Ask {
            id: id.to_string(),
            owner: ctx.sender.to_string(),
            class: if base == cfg.base {
                AskClass::Basic
            } else {
                AskClass::Pending
            },
            base: base.to_string(),
            quote: quote.to_string(),
            price: price.to_string(),
            size,
        },
    );
    finish(failing, zone, vec![e], labels)
}

#[allow(clippy::too_many_arguments)]
fn expect_create_bid(
    ctx: &Ctx,
    cfg: &Cfg,
    id: &str,
    base: &str,
    fee: &Option<(String, u128)>,
    price: &str,
    quote: &str,
    quote_size: u128,
    size: u128,
) -> Expect {
    let mut failing = vec![];
    let mut zone: Option<String> = None;
    let mut labels = vec![];
    if !is_canonical_uuid(id) {
        failing.push("id: not a canonical hyphenated UUID".into());
    } else if ctx.book.bids.contains_key(id) || ctx.book.legacy_bids.contains_key(id) {
        failing.push("id: already on the bid side".into());
        labels.push("duplicate-id");
    }
    if base.is_empty() || base != cfg.base {
        failing.push("denom: base denomination is not the contract's".into());
    }
    if quote.is_empty() || !cfg.quotes.iter().any(|q| q == quote) {
        failing.push("denom: quote denomination not traded".into());
    }
    if size == 0 || cfg.increment == 0 || size % cfg.increment != 0 {
        failing.push("size: not a positive multiple of the increment".into());
    }
    if quote_size == 0 {
        failing.push("size: quote size is zero".into());
    }
    if !holds_all(ctx, &cfg.bid_attrs) {
        failing.push("attr: sender lacks a required attribute".into());
    }
    let mut expected_fee = None;
    let mut total_u = None;
    match check_price(price, cfg.precision) {
        PriceCheck::Bad(w) => failing.push(w),
        PriceCheck::Zone(w) => zone = Some(w),
        PriceCheck::Ok(p) => {
            if size >= TWO96 || quote_size >= TWO96 {
                zone = Some("size or quote size of 2^96 or more".into());
            } else {
                let total = p.mul_u128(size);
                if !total.representable() {
                    zone = Some("price x size not representable".into());
                    if !total.is_integer() {
                        // beyond 96 bits the contract's decimal product is rounded silently; an
                        // amount that is exactly fractional must still not be admitted (recorded
                        // as a known finding, see known_findings.json)
                        failing.push("beyond96: price x size is fractional (and needs more than 96 bits)".into());
                    }
                } else if !total.is_integer() {
                    failing.push("price: price x size is not an integer".into());
                } else {
                    match total.as_u128() {
                        None => zone = Some("total exceeds u128".into()),
                        Some(t) => {
                            total_u = Some(t);
                            if t != quote_size {
                                failing.push("size: price x size differs from the stated quote size".into());
                            }
                            match rate_of(&cfg.bid_fee) {
                                Err(w) => zone = Some(w),
                                Ok(r) => {
                                    if r.neg {
                                        zone = Some("negative fee rate".into());
                                    } else {
                                        let f = r.mul_u128(t);
                                        if !f.representable() {
                                            zone = Some("rate x total not representable".into());
                                        } else {
                                            match f.round_half_away() {
                                                None => zone = Some("fee exceeds u128".into()),
                                                Some(x) => {
                                                    expected_fee = Some(x);
                                                    if f.is_half_tie() {
                                                        labels.push("fee-tie");
                                                    }
                                                    if x == 0 && !r.is_zero() {
                                                        labels.push("fee-rounds-to-zero");
                                                    }
                                                }
                                            }
                                        }
                                    }
                                }
                            }
                        }
                    }
                }
            }
        }
    }
    let fee_amt = fee.as_ref().map(|f| f.1).unwrap_or(0);
    if let Some(x) = expected_fee {
        match fee {
            None => {
                if x != 0 {
                    failing.push(format!("fee: absent but {} is due", x));
                }
            }
            Some((d, a)) => {
                if *a != x {
                    failing.push(format!("fee: {} differs from the {} due", a, x));
                }
                if d != quote {
                    failing.push("fee: not in the quote denomination".into());
                }
                if *a == 0 && x == 0 && failing.is_empty() {
                    // an explicit zero fee: the statements are silent
                    zone = zone.or(Some("explicit zero fee".into()));
                }
            }
        }
    }
    if let Some(t) = total_u {
        match t.checked_add(fee_amt) {
            None => zone = Some("total + fee exceeds u128".into()),
            Some(need) => {
                if !quote.is_empty() && !funds_ok(ctx, quote, need) {
                    failing.push("funds: escrow is not exactly total + fee in the quote denomination".into());
                }
            }
        }
    } else if zone.is_none() && failing.is_empty() {
        zone = Some("total undetermined".into());
    }
    if ctx.tables.restricted(quote) {
        labels.push("restricted-escrow");
    }
    let mut e = base_effects(ctx, cfg);
    escrow_flow(ctx, &mut e, quote, quote_size.saturating_add(fee_amt));
    e.bids.insert(
        id.to_string(),
        Bid {
            id: id.to_string(),
            owner: ctx.sender.to_string(),
            base_denom: base.to_string(),
            size,
            acc_base: 0,
            acc_quote: 0,
            acc_fee: 0,
            fee: fee.clone(),
            price: price.to_string(),
            quote_denom: quote.to_string(),
            quote: quote_size,
        },
    );
    let mut x = finish(failing, zone, vec![e], labels);
    x.expected_fee = expected_fee;
    x
}

fn expect_approve(ctx: &Ctx, cfg: &Cfg, id: &str, base: &str, size: u128) -> Expect {
    let mut failing = vec![];
    let mut labels = vec![];
    if !cfg.approvers.iter().any(|a| a == ctx.sender) {
        failing.push("auth: sender is not an approver".into());
    }
    let ask = if is_canonical_uuid(id) {
        ctx.book.asks.get(id)
    } else {
        failing.push("id: not a canonical hyphenated UUID".into());
        None
    };
    match ask {
        None => failing.push("exists: no such ask".into()),
        Some(a) => {
            match &a.class {
                AskClass::Pending => {}
                AskClass::Basic => {
                    failing.push("state: plain asks cannot be approved".into());
                    labels.push("approve-plain");
                }
                AskClass::Ready { .. } => {
                    failing.push("state: ask already approved".into());
                    labels.push("approve-twice");
                }
            }
            if a.base == cfg.base && a.class != AskClass::Basic {
                // an ask in the contract's own base denomination is plain whatever was recorded
                failing.push("state: plain asks cannot be approved (base is the contract's own)".into());
                labels.push("approve-plain");
            }
            if size != a.size {
                failing.push("size: differs from the ask's current size".into());
            }
        }
    }
    if size == 0 {
        failing.push("size: is zero".into());
    }
    if base != cfg.base {
        failing.push("denom: base is not the contract's base denomination".into());
    }
    if !base.is_empty() && !funds_ok(ctx, base, size) {
        failing.push("funds: escrow is not exactly the size in the base denomination".into());
    }
    let mut e = base_effects(ctx, cfg);
    escrow_flow(ctx, &mut e, base, size);
    if let Some(a) = e.asks.get_mut(id) {
        a.class = AskClass::Ready {
            approver: ctx.sender.to_string(),
            denom: base.to_string(),
            amount: size,
        };
    }
    finish(failing, None, vec![e], labels)
}

#[derive(Clone, Copy, PartialEq, Eq, Debug)]
pub enum RevKind {
    Cancel,
    Expire,
    Reject,
}

fn expect_reverse_ask(
    ctx: &Ctx,
    cfg: &Cfg,
    id: &str,
    kind: RevKind,
    size: Option<u128>,
) -> Expect {
    let mut failing = vec![];
    let mut labels = vec![];
    if !ctx.funds.is_empty() {
        failing.push("funds: attached to a request that takes none".into());
    }
    let ask = ctx.book.asks.get(id);
    match kind {
        RevKind::Cancel => {
            if let Some(a) = ask {
                if a.owner != ctx.sender {
                    failing.push("auth: sender is not the owner".into());
                }
            }
        }
        _ => {
            if !cfg.executors.iter().any(|a| a == ctx.sender) {
                failing.push("auth: sender is not an executor".into());
            }
        }
    }
    let a = match ask {
        None => {
            failing.push("exists: no such ask".into());
            return finish(failing, None, vec![], labels);
        }
        Some(a) => a,
    };
    let c = match size {
        None => a.size,
        Some(c) => {
            labels.push("partial");
            if c == 0 || cfg.increment == 0 || c % cfg.increment != 0 {
                failing.push("size: partial size is not a positive multiple of the increment".into());
            }
            if c > a.size {
                failing.push("size: partial size exceeds what remains".into());
            }
            c
        }
    };
    let mut e = base_effects(ctx, cfg);
    if c <= a.size {
        flow_add(&mut e.flows, CONTRACT, &a.owner, &a.base, c);
        let mut after = a.clone();
        after.size = a.size - c;
        if let AskClass::Ready {
            approver,
            denom,
            amount,
        } = &a.class
        {
            labels.push("approved");
            // the cancelled portion of the approver's escrow goes back to the approver and the
            // recorded amount stays in step with the size
            let back = c;
            flow_add(&mut e.flows, CONTRACT, approver, denom, back);
            // the recorded approver amount equals the remaining size after every operation (C08);
            // on a state an earlier version left out of step this also brings it back in step
            let _ = amount;
            after.class = AskClass::Ready {
                approver: approver.clone(),
                denom: denom.clone(),
                amount: after.size,
            };
        }
        if after.size == 0 {
            e.asks.remove(id);
        } else {
            e.asks.insert(id.to_string(), after);
        }
    }
    finish(failing, None, vec![e], labels)
}

fn expect_reverse_bid(
    ctx: &Ctx,
    cfg: &Cfg,
    id: &str,
    kind: RevKind,
    size: Option<u128>,
) -> Expect {
    let mut failing = vec![];
    let mut labels = vec![];
    let mut zone: Option<String> = None;
    if !ctx.funds.is_empty() {
        failing.push("funds: attached to a request that takes none".into());
    }
    let bid = ctx.book.bids.get(id);
    match kind {
        RevKind::Cancel => {
            if let Some(b) = bid {
                if b.owner != ctx.sender {
                    failing.push("auth: sender is not the owner".into());
                }
            }
        }
        _ => {
            if !cfg.executors.iter().any(|a| a == ctx.sender) {
                failing.push("auth: sender is not an executor".into());
            }
        }
    }
    let b = match bid {
        None => {
            if ctx.book.legacy_bids.contains_key(id) {
                return Expect::either("bid stored in the legacy format");
            }
            failing.push("exists: no such bid".into());
            return finish(failing, None, vec![], labels);
        }
        Some(b) => b,
    };
    let (rem_base, rem_quote, rem_fee) = match (b.rem_base(), b.rem_quote(), b.rem_fee()) {
        (Some(x), Some(y), Some(z)) => (x, y, z),
        _ => return Expect::either("bid record inconsistent"),
    };
    let c = match size {
        None => rem_base,
        Some(c) => {
            labels.push("partial");
            if c == 0 || cfg.increment == 0 || c % cfg.increment != 0 {
                failing.push("size: partial size is not a positive multiple of the increment".into());
            }
            if c > rem_base {
                failing.push("size: partial size exceeds what remains".into());
            }
            c
        }
    };
    let mut alts = vec![];
    if c <= rem_base {
        let p = match parse(&b.price) {
            Parsed::Num(p) => Some(p),
            _ => {
                zone = Some("recorded price outside the grammar".into());
                None
            }
        };
        if b.size >= TWO96 || b.quote >= TWO96 || b.fee_amount() >= TWO96 {
            zone = Some("amounts of 2^96 or more".into());
        }
        if let Some(p) = p {
            let cq = p.mul_u128(c);
            if !cq.representable() {
                zone = Some("price x cancel size not representable".into());
            }
            match cq.as_u128() {
                None => {
                    if zone.is_none() {
                        zone = Some("price x cancel size not an integer".into());
                    }
                }
                Some(cq) if cq <= rem_quote => {
                    let keep = if b.fee.is_some() && b.quote > 0 {
                        let pr = prorata(b.fee_amount(), rem_quote - cq, b.quote);
                        if pr.tie {
                            labels.push("fee-tie");
                        }
                        if pr.wide {
                            labels.push("fee-wide");
                        }
                        if pr.hi - pr.lo > 3 {
                            zone = Some("pro-rata acceptance set too wide to enumerate".into());
                        }
                        pr.candidates()
                    } else {
                        vec![0]
                    };
                    if b.fee.is_some() {
                        labels.push("fee-bearing");
                    }
                    for k in keep {
                        if k > rem_fee {
                            continue;
                        }
                        let back = rem_fee - k;
                        let mut e = base_effects(ctx, cfg);
                        e.fee_returned = back;
                        flow_add(&mut e.flows, CONTRACT, &b.owner, &b.quote_denom, cq);
                        flow_add(&mut e.flows, CONTRACT, &b.owner, &b.quote_denom, back);
                        let mut after = b.clone();
                        after.acc_base += c;
                        after.acc_quote += cq;
                        after.acc_fee += back;
                        if after.acc_base == after.size {
                            e.bids.remove(id);
                        } else {
                            e.bids.insert(id.to_string(), after);
                        }
                        alts.push(e);
                    }
                    if alts.is_empty() {
                        zone = Some("held fee below every admissible remainder".into());
                    }
                }
                Some(_) => zone = Some("cancelled quote exceeds the unspent quote".into()),
            }
        }
    }
    finish(failing, zone, alts, labels)
}

fn expect_match(
    ctx: &Ctx,
    cfg: &Cfg,
    ask_id: &str,
    bid_id: &str,
    price: &str,
    size: u128,
) -> Expect {
    let mut failing: Vec<String> = vec![];
    let mut zone: Option<String> = None;
    let mut labels = vec![];
    if !cfg.executors.iter().any(|a| a == ctx.sender) {
        failing.push("auth: sender is not an executor".into());
    }
    if !ctx.funds.is_empty() {
        failing.push("funds: attached to a request that takes none".into());
    }
    if size == 0 {
        failing.push("size: is zero".into());
    }
    let ask = if is_canonical_uuid(ask_id) {
        ctx.book.asks.get(ask_id)
    } else {
        None
    };
    let bid = if is_canonical_uuid(bid_id) {
        ctx.book.bids.get(bid_id)
    } else {
        None
    };
    if ask.is_none() {
        failing.push("exists: ask not on the book (under a canonical id)".into());
    }
    if bid.is_none() {
        if ctx.book.legacy_bids.contains_key(bid_id) {
            return Expect::either("bid stored in the legacy format");
        }
        failing.push("exists: bid not on the book (under a canonical id)".into());
    }
    let exec = match parse(price) {
        Parsed::Num(d) => Some(d),
        Parsed::Garbage => {
            failing.push("price: execution price is not a number".into());
            None
        }
        Parsed::Unclear => {
            zone = Some("execution price outside the grammar".into());
            None
        }
    };
    let (a, b) = match (ask, bid) {
        (Some(a), Some(b)) => (a, b),
        _ => return finish(failing, zone, vec![], labels),
    };
    if a.quote != b.quote_denom {
        failing.push("denom: quote denominations differ".into());
    }
    // an ask in the contract's own base denomination is plain whatever class was recorded
    if a.class == AskClass::Pending && a.base != cfg.base {
        failing.push("state: ask is pending approval".into());
        labels.push("match-pending");
    }
    let (rem_base, rem_quote, rem_fee) = match (b.rem_base(), b.rem_quote(), b.rem_fee()) {
        (Some(x), Some(y), Some(z)) => (x, y, z),
        _ => return Expect::either("bid record inconsistent"),
    };
    if size > a.size {
        failing.push("size: exceeds the ask's remaining size".into());
    }
    if size > rem_base {
        failing.push("size: exceeds the bid's remaining size".into());
    }
    let (ap, bp) = match (parse(&a.price), parse(&b.price)) {
        (Parsed::Num(x), Parsed::Num(y)) => (x, y),
        _ => {
            return finish(
                failing,
                Some("recorded price outside the grammar".into()),
                vec![],
                labels,
            )
        }
    };
    if bp.lt(&ap) {
        failing.push("price: ask price exceeds bid price".into());
    }
    let mut facts = MatchFacts::default();
    let mut expected_ask: Option<(u128, Option<String>)> = None;
    let mut alts = vec![];
    if let Some(p) = &exec {
        if !(p.eq_num(&ap) || p.eq_num(&bp)) {
            failing.push("price: execution price is neither limit price".into());
        }
        let improved = p.lt(&bp);
        if size >= TWO96 || b.quote >= TWO96 || b.size >= TWO96 || b.fee_amount() >= TWO96 {
            zone = Some("amounts of 2^96 or more".into());
        }
        let gross_d = p.mul_u128(size);
        let bgross_d = bp.mul_u128(size);
        if !gross_d.representable() || (improved && !bgross_d.representable()) {
            zone = Some("price x size not representable".into());
            // only when nothing else is wrong with the request: the silent rounding is then the
            // sole reason a fractional amount can get through (known finding)
            if failing.is_empty() && size >= 1 && ((!gross_d.representable() && !gross_d.is_integer()) || (improved && !bgross_d.representable() && !bgross_d.is_integer())) {
                failing.push("beyond96: size x price is fractional (and needs more than 96 bits)".into());
            }
        }
        if gross_d.representable() && !gross_d.is_integer() {
            failing.push("price: size x execution price is not a whole number".into());
        }
        if improved && bgross_d.representable() && !bgross_d.is_integer() {
            failing.push("price: size x bid price is not a whole number".into());
        }
        let gross = gross_d.as_u128();
        let bgross = if improved { bgross_d.as_u128() } else { gross };
        if failing.is_empty() && size >= 1 {
            if let (Some(gross), Some(bgross)) = (gross, bgross) {
                // fees payable?
                let ask_rate = rate_of(&cfg.ask_fee);
                let mut ask_fee = 0u128;
                match ask_rate {
                    Err(w) => zone = Some(w),
                    Ok(r) => {
                        if r.neg {
                            zone = Some("negative fee rate".into());
                        } else {
                            let f = r.mul_u128(gross);
                            if !f.representable() {
                                zone = Some("rate x gross not representable".into());
                            } else {
                                match f.round_half_away() {
                                    None => zone = Some("ask fee exceeds u128".into()),
                                    Some(x) => {
                                        ask_fee = x;
                                        if f.is_half_tie() {
                                            labels.push("ask-fee-tie");
                                        }
                                        if x == 0 && !r.is_zero() {
                                            labels.push("ask-fee-rounds-to-zero");
                                        }
                                    }
                                }
                            }
                        }
                    }
                }
                if zone.is_none() {
                    expected_ask = Some((ask_fee, cfg.ask_fee.as_ref().map(|f| f.0.clone())));
                }
                if ask_fee > gross {
                    // "with the configured fees payable" fails: no demand either way
                    zone = zone.or(Some("ask fee exceeds the gross proceeds".into()));
                }
                if bgross > rem_quote {
                    zone = zone.or(Some("bid quote consumed exceeds the unspent quote".into()));
                }
                if zone.is_none() {
                    let (seller_side, convertible) = match &a.class {
                        AskClass::Ready { approver, .. } => (approver.clone(), true),
                        _ => (a.owner.clone(), false),
                    };
                    let ask_fee_account = cfg.ask_fee.as_ref().map(|f| f.0.clone());
                    let bid_fee_account = cfg.bid_fee.as_ref().map(|f| f.0.clone());
                    // pro-rata fee that must remain after paying for p*s, and after the refund
                    let (k1s, k2s, tie_any) = if b.fee.is_some() && b.quote > 0 {
                        let pr1 = prorata(b.fee_amount(), rem_quote - gross, b.quote);
                        let pr2 = prorata(b.fee_amount(), rem_quote - bgross, b.quote);
                        if pr1.wide || pr2.wide {
                            labels.push("fee-wide");
                        }
                        if pr1.hi - pr1.lo > 3 || (improved && pr2.hi - pr2.lo > 3) {
                            zone = Some("pro-rata acceptance set too wide to enumerate".into());
                        }
                        (
                            pr1.candidates(),
                            if improved {
                                pr2.candidates()
                            } else {
                                vec![]
                            },
                            pr1.tie || (improved && pr2.tie),
                        )
                    } else {
                        (vec![0], if improved { vec![0] } else { vec![] }, false)
                    };
                    if tie_any {
                        labels.push("fee-tie");
                    }
                    let mut due_somewhere = false;
                    for k1 in &k1s {
                        if *k1 > rem_fee {
                            continue;
                        }
                        let paid = rem_fee - k1;
                        let k2list: Vec<Option<u128>> = if improved {
                            k2s.iter().map(|x| Some(*x)).collect()
                        } else {
                            vec![None]
                        };
                        for k2 in k2list {
                            let refund_fee = match k2 {
                                Some(k2) => {
                                    if k2 > *k1 {
                                        continue;
                                    }
                                    k1 - k2
                                }
                                None => 0,
                            };
                            if paid > 0 {
                                due_somewhere = true;
                            }
                            if paid > 0 && bid_fee_account.is_none() {
                                continue;
                            }
                            let mut e = base_effects(ctx, cfg);
                            e.ask_fee = ask_fee;
                            e.bid_fee_paid = paid;
                            e.fee_returned = refund_fee;
                            let q = &b.quote_denom;
                            // base to the buyer
                            flow_add(&mut e.flows, CONTRACT, &b.owner, &cfg.base, size);
                            // proceeds to the selling side
                            flow_add(&mut e.flows, CONTRACT, &seller_side, q, gross - ask_fee);
                            if convertible {
                                flow_add(&mut e.flows, CONTRACT, &seller_side, &a.base, size);
                            }
                            if let Some(acc) = &ask_fee_account {
                                flow_add(&mut e.flows, CONTRACT, acc, q, ask_fee);
                            }
                            if let Some(acc) = &bid_fee_account {
                                flow_add(&mut e.flows, CONTRACT, acc, q, paid);
                            }
                            if improved {
                                flow_add(&mut e.flows, CONTRACT, &b.owner, q, bgross - gross);
                                flow_add(&mut e.flows, CONTRACT, &b.owner, q, refund_fee);
                            }
                            let mut a2 = a.clone();
                            a2.size -= size;
                            if let AskClass::Ready {
                                approver,
                                denom,
                                amount,
                            } = &a.class
                            {
                                let _ = amount;
                                a2.class = AskClass::Ready {
                                    approver: approver.clone(),
                                    denom: denom.clone(),
                                    amount: a2.size,
                                };
                            }
                            if a2.size == 0 {
                                e.asks.remove(ask_id);
                            } else {
                                e.asks.insert(ask_id.to_string(), a2);
                            }
                            let mut b2 = b.clone();
                            b2.acc_base += size;
                            b2.acc_quote += bgross;
                            b2.acc_fee += paid + refund_fee;
                            if b2.acc_base == b2.size {
                                e.bids.remove(bid_id);
                            } else {
                                e.bids.insert(bid_id.to_string(), b2);
                            }
                            alts.push(e);
                        }
                    }
                    if alts.is_empty() {
                        zone = Some(if due_somewhere && bid_fee_account.is_none() {
                            "bid fee due but no bid-fee account configured".into()
                        } else {
                            "held fee below every admissible remainder".into()
                        });
                    }
                    let parties = [
                        Some(b.owner.clone()),
                        Some(seller_side.clone()),
                        ask_fee_account.clone(),
                        bid_fee_account.clone(),
                    ];
                    let mut coinciding = false;
                    for i in 0..parties.len() {
                        for j in (i + 1)..parties.len() {
                            if parties[i].is_some() && parties[i] == parties[j] {
                                coinciding = true;
                            }
                        }
                    }
                    facts = MatchFacts {
                        gross,
                        ask_fee,
                        improved,
                        bid_gross: bgross,
                        convertible,
                        seller_side,
                        buyer: b.owner.clone(),
                        ask_fee_account,
                        bid_fee_account,
                        held_fee: rem_fee,
                        tie_any,
                        fee_zero_rounded: b.fee.is_some()
                            && k1s.iter().any(|k| *k == rem_fee)
                            && rem_fee > 0,
                        ask_fee_is_gross: ask_fee == gross && gross > 0,
                        coinciding,
                    };
                    if improved {
                        labels.push("improved-price");
                    }
                    if convertible {
                        labels.push("convertible");
                    }
                    if b.fee.is_some() {
                        labels.push("fee-bearing");
                    }
                    if coinciding {
                        labels.push("coinciding-parties");
                    }
                    if ask_fee == gross && gross > 0 {
                        labels.push("ask-fee-whole");
                    }
                }
            } else if zone.is_none() {
                zone = Some("gross exceeds u128".into());
            }
        }
    }
    let mut x = finish(failing, zone, alts, labels);
    if x.verdict == Verdict::Accept {
        x.match_facts = Some(facts);
    }
    x.expected_ask_fee = expected_ask;
    x
}

fn set_of(v: &[String]) -> std::collections::BTreeSet<String> {
    v.iter().cloned().collect()
}

/// The configuration a change request asks for ("supplied fields installed exactly,
/// omitted ones kept"). None for a pair when it is half supplied (left alone).
pub fn apply_change(cfg: &Cfg, ch: &CfgChange, with_executors: bool) -> Cfg {
    let mut c = cfg.clone();
    if let Some(x) = &ch.approvers {
        c.approvers = x.clone();
    }
    if with_executors {
        if let Some(x) = &ch.executors {
            c.executors = x.clone();
        }
    }
    if let (Some(r), Some(a)) = (&ch.ask_fee_rate, &ch.ask_fee_account) {
        c.ask_fee = if r.is_empty() && a.is_empty() {
            None
        } else {
            Some((a.clone(), r.clone()))
        };
    }
    if let (Some(r), Some(a)) = (&ch.bid_fee_rate, &ch.bid_fee_account) {
        c.bid_fee = if r.is_empty() && a.is_empty() {
            None
        } else {
            Some((a.clone(), r.clone()))
        };
    }
    if let Some(x) = &ch.ask_attrs {
        c.ask_attrs = x.clone();
    }
    if let Some(x) = &ch.bid_attrs {
        c.bid_attrs = x.clone();
    }
    c
}

pub fn fee_equiv(a: &Option<(String, String)>, b: &Option<(String, String)>) -> bool {
    match (a, b) {
        (None, None) => true,
        (Some((aa, ar)), Some((ba, br))) => {
            aa == ba
                && match (parse(ar), parse(br)) {
                    (Parsed::Num(x), Parsed::Num(y)) => x.eq_num(&y),
                    _ => ar == br,
                }
        }
        _ => false,
    }
}

/// configuration equality up to the decimal spelling of the two rates
pub fn cfg_equiv(a: &Cfg, b: &Cfg) -> bool {
    a.name == b.name
        && a.bind_name == b.bind_name
        && a.base == b.base
        && a.convertibles == b.convertibles
        && a.quotes == b.quotes
        && a.approvers == b.approvers
        && a.executors == b.executors
        && fee_equiv(&a.ask_fee, &b.ask_fee)
        && fee_equiv(&a.bid_fee, &b.bid_fee)
        && a.ask_attrs == b.ask_attrs
        && a.bid_attrs == b.bid_attrs
        && a.precision == b.precision
        && a.increment == b.increment
}

/// numeric value of a side's fee rate, "no fee" being 0; None when unparsable
fn rate_value(fee: &Option<(String, String)>) -> Option<Dec> {
    match fee {
        None => Some(Dec::zero()),
        Some((_, r)) => match parse(r) {
            Parsed::Num(d) => Some(d),
            _ => None,
        },
    }
}

fn expect_modify(ctx: &Ctx, cfg: &Cfg, ch: &CfgChange) -> Expect {
    let mut failing = vec![];
    let mut labels = vec![];
    if !cfg.executors.iter().any(|a| a == ctx.sender) {
        failing.push("auth: sender is not an executor".into());
    }
    if matches!(&ch.approvers, Some(v) if v.is_empty()) {
        failing.push("cfg: approver list would be empty".into());
    }
    if matches!(&ch.executors, Some(v) if v.is_empty()) {
        failing.push("cfg: executor list would be empty".into());
    }
    let asks_open = !ctx.book.asks.is_empty();
    let bids_open = !ctx.book.bids.is_empty() || !ctx.book.legacy_bids.is_empty();
    let after = apply_change(cfg, ch, true);
    if asks_open {
        match (rate_value(&cfg.ask_fee), rate_value(&after.ask_fee)) {
            (Some(x), Some(y)) => {
                if !x.eq_num(&y) {
                    failing.push("cfg: ask fee rate would change while asks are open".into());
                }
            }
            _ => {
                if cfg.ask_fee.as_ref().map(|f| &f.1) != after.ask_fee.as_ref().map(|f| &f.1) {
                    failing.push("cfg: ask fee rate would change (to or from a non-number) while asks are open".into());
                }
            }
        }
        if set_of(&cfg.ask_attrs) != set_of(&after.ask_attrs) {
            failing.push("cfg: ask required attributes would change while asks are open".into());
        }
    }
    if bids_open {
        match (rate_value(&cfg.bid_fee), rate_value(&after.bid_fee)) {
            (Some(x), Some(y)) => {
                if !x.eq_num(&y) {
                    failing.push("cfg: bid fee rate would change while bids are open".into());
                }
            }
            _ => {
                if cfg.bid_fee.as_ref().map(|f| &f.1) != after.bid_fee.as_ref().map(|f| &f.1) {
                    failing.push("cfg: bid fee rate would change (to or from a non-number) while bids are open".into());
                }
            }
        }
        if set_of(&cfg.bid_attrs) != set_of(&after.bid_attrs) {
            failing.push("cfg: bid required attributes would change while bids are open".into());
        }
    }
    if asks_open || bids_open {
        if let Some(new) = &ch.approvers {
            if cfg.approvers.iter().any(|a| !new.contains(a)) {
                failing.push("cfg: a current approver would be dropped while orders are open".into());
            }
        }
        labels.push("non-empty-book");
    }
    let half = ch.ask_fee_rate.is_some() != ch.ask_fee_account.is_some()
        || ch.bid_fee_rate.is_some() != ch.bid_fee_account.is_some();
    if half {
        labels.push("half-pair");
    }
    let mut e = base_effects(ctx, cfg);
    e.cfg = after;
    if !failing.is_empty() {
        let mut x = Expect::refuse(failing);
        x.labels = labels;
        return x;
    }
    // the statements do not say that a legal change must be accepted
    Expect {
        verdict: Verdict::Either("no demand that a legal configuration change be accepted".into()),
        alts: vec![e],
        failing: vec![],
        zone: None,
        beyond96: false,
        labels,
        match_facts: None,
        expected_fee: None,
        expected_ask_fee: None,
    }
}
