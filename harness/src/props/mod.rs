//! One observer per property. `observe` is called after every execute step with
//! the complete before/after view; only the selected property's observer runs.

use crate::chain::{Kind, Outcome, World};
use crate::exec::{Judge, Prop, StepView};
use crate::model::{self, flows_of_moves, Effects, Req, Verdict};
use crate::wire::AskClass;
use serde_json::Value;

pub mod basic; // C01 C10 C11
pub mod config; // C12 C13
pub mod flowsp; // C02 C04 C07 C08 C09
pub mod migrate; // C14 C15
pub mod probes; // C03 C05 C06
pub mod report; // C16 C17

pub fn observe(j: &mut Judge, v: &StepView) {
    for l in &v.exp.labels {
        if v.out.accepted() {
            j.labels.insert(l);
        }
    }
    match j.prop {
        Prop::C01 => basic::c01(j, v),
        Prop::C02 => flowsp::c02(j, v),
        Prop::C03 => probes::c03(j, v),
        Prop::C04 => flowsp::c04(j, v),
        Prop::C05 => probes::c05(j, v),
        Prop::C06 => probes::c06(j, v),
        Prop::C07 => flowsp::c07(j, v),
        Prop::C08 => flowsp::c08(j, v),
        Prop::C09 => flowsp::c09(j, v),
        Prop::C10 => basic::c10(j, v),
        Prop::C11 => basic::c11(j, v),
        Prop::C12 => config::c12(j, v),
        Prop::C13 => {}
        Prop::C14 | Prop::C15 => {}
        Prop::C16 => report::c16(j, v),
        Prop::C17 => report::c17(j, v),
    }
}

pub fn after_instantiate(j: &mut Judge, w: &World, sender: &str, msg: &Value, out: &Outcome) {
    if j.prop == Prop::C10 {
        basic::c10_messages(j, sender, "instantiate", out, &w.tables);
    }
    if j.prop == Prop::C13 {
        config::c13_after_instantiate(j, w, msg, out);
    }
}

pub fn after_migrate(j: &mut Judge, before: &World, after: &World, msg: &Value, out: &Outcome) {
    match j.prop {
        Prop::C14 => migrate::c14(j, before, after, msg, out),
        Prop::C15 => migrate::c15(j, before, after, msg, out),
        Prop::C10 => basic::c10_messages(j, "", "migrate", out, &after.tables),
        _ => {}
    }
}

// ---------------------------------------------------------------- shared helpers

/// the alternative of the model whose flows and resulting book equal the real ones
pub fn matching_alt<'a>(v: &'a StepView) -> Option<&'a Effects> {
    let real = flows_of_moves(&v.out.moves);
    v.exp.alts.iter().find(|e| {
        model::prune(e.flows.clone()) == real
            && e.asks == v.after.asks
            && e.bids == v.after.bids
            && v.after
                .cfg
                .as_ref()
                .map(|c| model::cfg_equiv(c, &e.cfg))
                .unwrap_or(false)
    })
}

pub fn describe_mismatch(v: &StepView) -> String {
    let real = flows_of_moves(&v.out.moves);
    let mut s = format!("real flows {:?}; ", real);
    for (i, e) in v.exp.alts.iter().enumerate() {
        let ef = model::prune(e.flows.clone());
        s.push_str(&format!(
            "alt{}: flows_equal={} asks_equal={} bids_equal={} expected flows {:?}; ",
            i,
            ef == real,
            e.asks == v.after.asks,
            e.bids == v.after.bids,
            ef
        ));
        if e.asks != v.after.asks {
            s.push_str(&format!(
                "expected asks {:?} real asks {:?}; ",
                e.asks, v.after.asks
            ));
        }
        if e.bids != v.after.bids {
            s.push_str(&format!(
                "expected bids {:?} real bids {:?}; ",
                e.bids, v.after.bids
            ));
        }
    }
    s
}

/// coarse class of the order(s) a request names, for signatures
pub fn feature(v: &StepView) -> String {
    let mut f = v.req.kind().to_string();
    let (asks, bids) = v.req.named();
    for id in asks {
        if let Some(a) = v.before.asks.get(&id) {
            f.push_str(match a.class {
                AskClass::Basic => ":plain-ask",
                AskClass::Pending => ":pending-ask",
                AskClass::Ready { .. } => ":approved-ask",
            });
        }
    }
    for id in bids {
        if let Some(b) = v.before.bids.get(&id) {
            f.push_str(if b.fee.is_some() {
                ":fee-bid"
            } else {
                ":plain-bid"
            });
        }
    }
    if v.exp.labels.contains(&"improved-price") {
        f.push_str(":improved");
    }
    f
}

pub fn first_tag(failing: &[String]) -> String {
    failing
        .first()
        .map(|s| s.split(':').next().unwrap_or("").to_string())
        .unwrap_or_default()
}

pub fn has_tag(failing: &[String], tag: &str) -> bool {
    failing.iter().any(|s| s.starts_with(tag))
}

pub fn is_refusal(out: &Outcome) -> bool {
    matches!(out.kind, Kind::Refused | Kind::Panicked)
}

pub fn in_zone_accept(v: &StepView) -> bool {
    v.exp.verdict == Verdict::Accept
}

pub fn is_reversal(r: &Req) -> bool {
    matches!(
        r,
        Req::CancelAsk { .. }
            | Req::CancelBid { .. }
            | Req::ExpireAsk { .. }
            | Req::ExpireBid { .. }
            | Req::RejectAsk { .. }
            | Req::RejectBid { .. }
    )
}
