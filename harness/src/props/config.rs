//! C12 configuration changes, C13 instantiation.

use super::has_tag;
use crate::chain::{Outcome, World, KEY_CONTRACT_INFO};
use crate::exec::{Judge, Prop, StepView};
use crate::model::{self, Ctx, Req, Verdict};
use crate::num::{parse, Parsed};
use crate::wire::{self, Cfg, CfgChange};
use cosmwasm_std::testing::MockApi;
use cosmwasm_std::Api;
use serde_json::Value;

fn judge_modify(j: &mut Judge, exp: &model::Expect, out: &Outcome, before_cfg: &Cfg, after_cfg: Option<&Cfg>, msg: &Value, origin: &str) {
    if !out.accepted() {
        return;
    }
    if has_tag(&exp.failing, "cfg:") {
        let why: Vec<_> = exp.failing.iter().filter(|f| f.starts_with("cfg:")).cloned().collect();
        j.violate(
            Prop::C12,
            "forbidden-change-accepted",
            &format!("{}:{}", origin, why[0]),
            format!("{} accepted although: {}", msg, why.join("; ")),
        );
    }
    if let Some(after) = after_cfg {
        if after.executors.is_empty() || (after.approvers.is_empty() && !before_cfg.approvers.is_empty()) {
            j.violate(
                Prop::C12,
                "list-set-empty",
                origin,
                format!("after {} the configuration has executors {:?} and approvers {:?}", msg, after.executors, after.approvers),
            );
        }
    }
    if let (Some(e), Some(after)) = (exp.alts.first(), after_cfg) {
        if &e.cfg != after {
            j.violate(
                Prop::C12,
                "installed-exactly",
                origin,
                format!("after {} the configuration is {:?}, expected {:?} (from {:?})", msg, after, e.cfg, before_cfg),
            );
        }
    }
}

pub fn c12(j: &mut Judge, v: &StepView) {
    // market parameters never change
    if let (Some(m), Some(c)) = (&j.tracker.market, &v.after.cfg) {
        let now = (c.name.clone(), c.base.clone(), c.convertibles.clone(), c.quotes.clone(), c.precision, c.increment);
        if &now != m {
            let m = m.clone();
            j.violate(
                Prop::C12,
                "market-parameters",
                v.req.kind(),
                format!("market parameters changed from {:?} to {:?}", m, now),
            );
        }
    }
    match v.req {
        Req::Modify(ch) => {
            if let Some(bc) = &v.before.cfg {
                judge_modify(j, v.exp, v.out, bc, v.after.cfg.as_ref(), v.msg, "history");
            }
            let touches = ch.ask_fee_rate.is_some()
                || ch.bid_fee_rate.is_some()
                || ch.ask_attrs.is_some()
                || ch.bid_attrs.is_some()
                || ch.approvers.is_some();
            if touches && (!v.before.asks.is_empty() || !v.before.bids.is_empty()) {
                j.nontrivial = true;
            }
        }
        _ => {
            if v.world_before.store.map.get(KEY_CONTRACT_INFO) != v.world_after.store.map.get(KEY_CONTRACT_INFO) {
                j.violate(
                    Prop::C12,
                    "configuration-changed-by-other-request",
                    v.req.kind(),
                    "the stored configuration changed on a non-configuration request".into(),
                );
            }
        }
    }
    // relational: the rate in force when an ask was placed is the one charged when it trades
    if let Req::Match { ask_id, .. } = v.req {
        if v.out.accepted() {
            if let (Some(t), Some(c)) = (j.tracker.asks.get(ask_id).cloned(), &v.before.cfg) {
                if let (Some(r0), Some(r1)) = (&t.created_rate, model::rate_num(&c.ask_fee)) {
                    if !r0.eq_num(&r1) {
                        let (a, b) = (r0.to_plain_string(), r1.to_plain_string());
                        j.violate(
                            Prop::C12,
                            "rate-moved-under-open-ask",
                            "execute",
                            format!("ask {} was placed under ask rate {} and traded under {}", ask_id, a, b),
                        );
                    }
                    // the fee actually charged, read off the flows when the ask-fee account is no
                    // other party of the match
                    if let (Verdict::Accept, Some(f)) = (&v.exp.verdict, &v.exp.match_facts) {
                        if let Some(acc) = &f.ask_fee_account {
                            let others = [Some(&f.buyer), Some(&f.seller_side), f.bid_fee_account.as_ref()];
                            if !others.iter().any(|o| *o == Some(acc)) {
                                if let Some(b) = v.before.bids.get(match v.req { Req::Match { bid_id, .. } => bid_id, _ => unreachable!() }) {
                                    let want = r0.mul_u128(f.gross).round_half_away();
                                    let real = crate::model::flows_of_moves(&v.out.moves);
                                    let got = real
                                        .get(&(acc.clone(), b.quote_denom.clone()))
                                        .map(|x| x.to_string())
                                        .unwrap_or_else(|| "0".to_string());
                                    if want.map(|w| w.to_string()) != Some(got.clone()) {
                                        j.violate(
                                            Prop::C12,
                                            "fee-charged-differs-from-placed-rate",
                                            "execute",
                                            format!("match of ask {} charged {} where the rate in force at placement gives {:?}", ask_id, got, want),
                                        );
                                    }
                                }
                            }
                        }
                    }
                    if j.tracker.modifies_accepted > 0 {
                        j.label("match-after-config-change");
                    }
                }
            }
        }
    }
    // every subset of the eight optional fields, on copies of the state after this step
    if !v.out.accepted() || j.probe_budget == 0 {
        return;
    }
    let cfg = match &v.after.cfg {
        Some(c) => c.clone(),
        None => return,
    };
    if j.pick(3) != 0 {
        return;
    }
    j.probe_budget -= 1;
    let exec = crate::gen::at(&cfg.executors, j.pick(cfg.executors.len()), "acct0");
    // values for each field: a mix of "same, spelled differently" and "different"
    let same_rate = |f: &Option<(String, String)>| -> (String, String) {
        match f {
            Some((a, r)) => (format!("{}0", if r.contains('.') { r.clone() } else { format!("{}.", r) }), a.clone()),
            None => (String::new(), String::new()),
        }
    };
    let variant = j.pick(6);
    let (ar, aa) = match variant {
        0 => same_rate(&cfg.ask_fee),
        1 => ("0.07".to_string(), "feeacct9".to_string()),
        2 => (String::new(), String::new()),
        // the installed rate in another spelling with an empty account / an empty rate with
        // the installed account
        4 => (same_rate(&cfg.ask_fee).0, String::new()),
        5 => (String::new(), same_rate(&cfg.ask_fee).1),
        _ => same_rate(&cfg.ask_fee),
    };
    let (br, ba) = match variant {
        0 => same_rate(&cfg.bid_fee),
        1 => same_rate(&cfg.bid_fee),
        2 => ("0.02".to_string(), "feeacct8".to_string()),
        4 => (same_rate(&cfg.bid_fee).0, String::new()),
        5 => (String::new(), same_rate(&cfg.bid_fee).1),
        _ => (String::new(), String::new()),
    };
    let mut more_approvers = cfg.approvers.clone();
    more_approvers.push("approver9".to_string());
    let fewer_approvers: Vec<String> = if cfg.approvers.len() > 1 { cfg.approvers[1..].to_vec() } else { vec!["approver9".to_string()] };
    let approvers = if variant % 2 == 0 { more_approvers } else { fewer_approvers };
    let mut executors = cfg.executors.clone();
    executors.reverse();
    let ask_attrs = if variant < 2 || variant == 4 { cfg.ask_attrs.clone() } else { vec!["attr.new".to_string()] };
    let bid_attrs = if variant >= 2 { cfg.bid_attrs.clone() } else { vec![] };
    let non_empty_book = !v.after.asks.is_empty() || !v.after.bids.is_empty();
    for mask in 0u32..256 {
        let ch = CfgChange {
            approvers: if mask & 1 != 0 { Some(approvers.clone()) } else { None },
            executors: if mask & 2 != 0 { Some(executors.clone()) } else { None },
            ask_fee_rate: if mask & 4 != 0 { Some(ar.clone()) } else { None },
            ask_fee_account: if mask & 8 != 0 { Some(aa.clone()) } else { None },
            bid_fee_rate: if mask & 16 != 0 { Some(br.clone()) } else { None },
            bid_fee_account: if mask & 32 != 0 { Some(ba.clone()) } else { None },
            ask_attrs: if mask & 64 != 0 { Some(ask_attrs.clone()) } else { None },
            bid_attrs: if mask & 128 != 0 { Some(bid_attrs.clone()) } else { None },
        };
        let msg = ch.to_modify();
        let req = Req::from_value(&msg);
        let exp = model::expect(
            &Ctx {
                book: v.after,
                tables: &v.world_after.tables,
                sender: &exec,
                funds: &[],
            },
            &req,
        );
        let mut w = v.world_after.clone();
        let out = w.execute(&exec, &[], &serde_json::to_vec(&msg).unwrap());
        j.counters.probes += 1;
        let after_cfg = wire::read_book(&w.store).cfg;
        judge_modify(j, &exp, &out, &cfg, after_cfg.as_ref(), &msg, "subsets");
        if out.accepted() {
            // nothing but the configuration entry may change
            for (k, val) in &v.world_after.store.map {
                if k.as_slice() != KEY_CONTRACT_INFO && w.store.map.get(k) != Some(val) {
                    j.violate(
                        Prop::C12,
                        "modify-touched-other-state",
                        "subsets",
                        format!("{} changed entry {:?}", msg, String::from_utf8_lossy(k)),
                    );
                }
            }
        }
    }
    j.label("all-256-field-subsets");
    if non_empty_book {
        j.nontrivial = true;
    }
}

// ---------------------------------------------------------------- C13

/// is this instantiate message coherent, per the statement? None = no verdict
pub fn coherent(msg: &Value) -> Option<Result<(), String>> {
    let s = |k: &str| msg.get(k).and_then(|x| x.as_str());
    let l = |k: &str| msg.get(k).and_then(|x| x.as_array());
    let api = MockApi::default();
    let mut bad = vec![];
    // structurally required fields (absent => the message does not parse: refused)
    for k in ["name", "base_denom"] {
        match s(k) {
            None => bad.push(format!("{} missing", k)),
            Some("") => bad.push(format!("{} empty", k)),
            _ => {}
        }
    }
    for k in ["convertible_base_denoms", "ask_required_attributes", "bid_required_attributes", "approvers"] {
        if l(k).is_none() {
            bad.push(format!("{} missing", k));
        }
    }
    for k in ["supported_quote_denoms", "executors"] {
        match l(k) {
            None => bad.push(format!("{} missing", k)),
            Some(a) if a.is_empty() => bad.push(format!("{} empty", k)),
            _ => {}
        }
    }
    for k in ["approvers", "executors"] {
        if let Some(a) = l(k) {
            for x in a {
                match x.as_str() {
                    Some(addr) if api.addr_validate(addr).is_ok() => {}
                    _ => bad.push(format!("{} contains an invalid address {:?}", k, x)),
                }
            }
        }
    }
    let num = |k: &str| -> Option<u128> { s(k).and_then(|x| x.parse::<u128>().ok()) };
    let prec = num("price_precision");
    let inc = num("size_increment");
    match prec {
        None => bad.push("price_precision missing or not a number".into()),
        Some(p) if p > 18 => bad.push("price precision above 18".into()),
        _ => {}
    }
    match inc {
        None => bad.push("size_increment missing or not a number".into()),
        Some(0) => bad.push("size increment below 1".into()),
        _ => {}
    }
    if let (Some(p), Some(i)) = (prec, inc) {
        if p <= 18 && i >= 1 && i % 10u128.pow(p as u32) != 0 {
            bad.push("size increment is not a multiple of 10^precision".into());
        }
    }
    let mut unclear = false;
    for side in ["ask", "bid"] {
        let r = msg.get(format!("{}_fee_rate", side));
        let a = msg.get(format!("{}_fee_account", side));
        let r = match r {
            None | Some(Value::Null) => None,
            Some(x) => Some(x.as_str()),
        };
        let a = match a {
            None | Some(Value::Null) => None,
            Some(x) => Some(x.as_str()),
        };
        match (r, a) {
            (None, None) => {}
            (Some(_), None) | (None, Some(_)) => bad.push(format!("{} fee half supplied", side)),
            (Some(r), Some(a)) => match (r, a) {
                (Some(""), Some("")) => {}
                (Some(r), Some(a)) => {
                    match parse(r) {
                        Parsed::Num(_) => {}
                        Parsed::Garbage => bad.push(format!("{} fee rate {:?} unparsable", side, r)),
                        Parsed::Unclear => unclear = true,
                    }
                    if api.addr_validate(a).is_err() {
                        bad.push(format!("{} fee account {:?} invalid", side, a));
                    }
                }
                _ => bad.push(format!("{} fee fields are not strings", side)),
            },
        }
    }
    if !bad.is_empty() {
        return Some(Err(bad.join("; ")));
    }
    if unclear {
        return None;
    }
    Some(Ok(()))
}

pub fn c13_after_instantiate(j: &mut Judge, w: &World, msg: &Value, out: &Outcome) {
    let verdict = coherent(msg);
    match &verdict {
        Some(Ok(())) => {
            if !out.accepted() {
                j.violate(
                    Prop::C13,
                    "coherent-configuration-refused",
                    &format!("{:?}", out.kind),
                    format!("{} is coherent but was answered {:?} {}", msg, out.kind, out.why),
                );
                return;
            }
        }
        Some(Err(why)) => {
            if out.accepted() {
                let tag = why.split(';').next().unwrap_or("").trim().to_string();
                // make the signature structural: strip concrete values
                let tag: String = tag.split('"').next().unwrap_or("").trim().to_string();
                j.violate(
                    Prop::C13,
                    "incoherent-configuration-accepted",
                    &tag,
                    format!("{} accepted although: {}", msg, why),
                );
            }
            return;
        }
        None => return,
    }
    // stored configuration and version record equal the request
    let book = wire::read_book(&w.store);
    let s = |k: &str| msg.get(k).and_then(|x| x.as_str()).unwrap_or("").to_string();
    let l = |k: &str| -> Vec<String> {
        msg.get(k)
            .and_then(|x| x.as_array())
            .map(|a| a.iter().map(|y| y.as_str().unwrap_or("").to_string()).collect())
            .unwrap_or_default()
    };
    let pair = |side: &str| -> Option<(String, String)> {
        let r = msg.get(format!("{}_fee_rate", side)).and_then(|x| x.as_str());
        let a = msg.get(format!("{}_fee_account", side)).and_then(|x| x.as_str());
        match (r, a) {
            (Some(""), Some("")) => None,
            (Some(r), Some(a)) => Some((a.to_string(), r.to_string())),
            _ => None,
        }
    };
    let want = Cfg {
        name: s("name"),
        bind_name: String::new(),
        base: s("base_denom"),
        convertibles: l("convertible_base_denoms"),
        quotes: l("supported_quote_denoms"),
        approvers: l("approvers"),
        executors: l("executors"),
        ask_fee: pair("ask"),
        bid_fee: pair("bid"),
        ask_attrs: l("ask_required_attributes"),
        bid_attrs: l("bid_required_attributes"),
        precision: s("price_precision").parse().unwrap_or(0),
        increment: s("size_increment").parse().unwrap_or(0),
    };
    match &book.cfg {
        Some(c) if c == &want => {}
        other => j.violate(
            Prop::C13,
            "stored-configuration",
            "instantiate",
            format!("stored configuration {:?} differs from the request {:?}", other, want),
        ),
    }
    // the same through the queries
    match w.query(&serde_json::to_vec(&wire::q_contract_info()).unwrap()) {
        Ok(bytes) => match wire::decode_cfg(&bytes) {
            Ok(c) if c == want => {}
            other => j.violate(
                Prop::C13,
                "stored-configuration",
                "query",
                format!("GetContractInfo returns {:?}, request was {:?}", other, want),
            ),
        },
        Err(e) => j.violate(Prop::C13, "stored-configuration", "query", format!("GetContractInfo fails: {}", e)),
    }
    let (name, version) = crate::pkg::package();
    match w.query(&serde_json::to_vec(&wire::q_version_info()).unwrap()) {
        Ok(bytes) => match wire::decode_version(&bytes) {
            Ok(vv) if vv.version == version && vv.definition == name => {}
            other => j.violate(
                Prop::C13,
                "version-record",
                "query",
                format!("GetVersionInfo returns {:?}, package is {} {}", other, name, version),
            ),
        },
        Err(e) => j.violate(Prop::C13, "version-record", "query", format!("GetVersionInfo fails: {}", e)),
    }
}
