//! Observers that compare real effects with the reference model:
//! C02 match settlement, C04 reversals, C07 admission, C08 convertible asks, C09 fees.

use super::{describe_mismatch, feature, first_tag, has_tag, is_refusal, is_reversal, matching_alt};
use crate::chain::{Kind, CONTRACT};
use crate::exec::{Judge, Prop, StepView};
use crate::model::{flows_of_moves, Req, Verdict};
use crate::num::prorata;
use crate::wire::{self, AskClass};
use cosmwasm_std::Int256;

pub fn c02(j: &mut Judge, v: &StepView) {
    if !matches!(v.req, Req::Match { .. }) || !v.out.accepted() {
        return;
    }
    for m in &v.out.moves {
        if m.from != CONTRACT {
            j.violate(
                Prop::C02,
                "payout-not-from-contract",
                &feature(v),
                format!("movement {:?} is not drawn from the contract", m),
            );
        }
    }
    match &v.exp.verdict {
        Verdict::Accept => {
            if matching_alt(v).is_none() {
                j.violate(
                    Prop::C02,
                    "settlement",
                    &feature(v),
                    format!("match settled differently from its due: {}", describe_mismatch(v)),
                );
            }
            if let Some(f) = &v.exp.match_facts {
                if f.improved || f.convertible || f.coinciding || f.held_fee > 0 || f.ask_fee > 0 {
                    j.nontrivial = true;
                }
                if f.fee_zero_rounded {
                    j.label("bid-fee-share-may-round-to-zero");
                }
            }
        }
        Verdict::Either(_) => {}
        Verdict::Refuse(_) => {} // eligibility is C03's
    }
}

pub fn c04(j: &mut Judge, v: &StepView) {
    if !is_reversal(v.req) || !v.out.accepted() {
        return;
    }
    match &v.exp.verdict {
        Verdict::Accept => {
            if matching_alt(v).is_none() {
                j.violate(
                    Prop::C04,
                    "returned-exactly",
                    &feature(v),
                    format!("reversal returned something other than the cancelled escrow: {}", describe_mismatch(v)),
                );
            }
        }
        Verdict::Refuse(_) => {
            if has_tag(&v.exp.failing, "size:") {
                j.violate(
                    Prop::C04,
                    "partial-size-rule",
                    &feature(v),
                    format!("accepted although: {}", v.exp.failing.join("; ")),
                );
            }
        }
        Verdict::Either(_) => {}
    }
    // telescoping at a full exit: everything escrowed on the order's behalf has been
    // returned or traded
    let (ask_ids, bid_ids) = v.req.named();
    for id in &ask_ids {
        if v.before.asks.contains_key(id) && !v.after.asks.contains_key(id) {
            if let Some(t) = j.tracker.asks.get(id).cloned() {
                if !t.entangled && !t.tainted && t.net.values().any(|x| !x.is_zero()) {
                    let net = t.net.clone();
                    j.violate(
                        Prop::C04,
                        "telescoping",
                        &feature(v),
                        format!("ask {} left the book with received-minus-paid {:?}", id, net),
                    );
                }
                if t.fills + t.partial_rejects >= 1 {
                    j.nontrivial = true;
                }
            }
        }
    }
    for id in &bid_ids {
        if v.before.bids.contains_key(id) && !v.after.bids.contains_key(id) {
            if let Some(t) = j.tracker.bids.get(id).cloned() {
                if !t.entangled && !t.tainted && t.net.values().any(|x| !x.is_zero()) {
                    let net = t.net.clone();
                    j.violate(
                        Prop::C04,
                        "telescoping",
                        &feature(v),
                        format!("bid {} left the book with received-minus-paid {:?}", id, net),
                    );
                }
                if t.fills + t.partial_rejects >= 1 {
                    j.nontrivial = true;
                }
            }
        }
    }
}

pub fn c07(j: &mut Judge, v: &StepView) {
    let (is_ask, id) = match v.req {
        Req::CreateAsk { id, .. } => (true, id.clone()),
        Req::CreateBid { id, .. } => (false, id.clone()),
        _ => return,
    };
    let feat = format!("{}:{}", v.req.kind(), first_tag(&v.exp.failing));
    // an id whose order has, by the reference model, left the book is free again - even if a
    // spent entry is still stored under it
    let zombie = if is_ask { j.tracker.zombie_asks.contains(&id) } else { j.tracker.zombie_bids.contains(&id) };
    if zombie && !v.out.accepted() {
        let mut cleaned = v.before.clone();
        if is_ask {
            cleaned.asks.remove(&id);
        } else {
            cleaned.bids.remove(&id);
        }
        let exp2 = crate::model::expect(
            &crate::model::Ctx {
                book: &cleaned,
                tables: &v.world_before.tables,
                sender: v.sender,
                funds: v.funds,
            },
            v.req,
        );
        if exp2.verdict == Verdict::Accept {
            j.violate(
                Prop::C07,
                "valid-order-refused",
                &format!("{}:id-of-a-closed-order", v.req.kind()),
                format!("the order formerly under id {} has completely left the book, yet a well-formed new order under that id is refused: {}", id, v.out.why),
            );
        }
    }
    match &v.exp.verdict {
        Verdict::Accept => {
            if !v.out.accepted() {
                j.violate(
                    Prop::C07,
                    "valid-order-refused",
                    &format!("{}:{:?}", v.req.kind(), v.out.kind),
                    format!("a request meeting every condition was not accepted: {:?} {}", v.out.kind, v.out.why),
                );
            } else if matching_alt(v).is_none() {
                j.violate(
                    Prop::C07,
                    "recorded-order-or-escrow",
                    v.req.kind(),
                    format!("accepted but recorded order / escrow differ from the request: {}", describe_mismatch(v)),
                );
            } else {
                // the escrow mechanism: attached funds only, or exactly one pull transfer
                let pulls: Vec<_> = v.out.moves.iter().filter(|m| m.by_marker_transfer).collect();
                if pulls.len() > 1 || pulls.iter().any(|m| m.from != v.sender || m.to != CONTRACT) {
                    j.violate(
                        Prop::C07,
                        "pull-transfer-shape",
                        v.req.kind(),
                        format!("escrow pull-in is not a single transfer from the sender: {:?}", v.out.moves),
                    );
                }
            }
        }
        Verdict::Refuse(_) => {
            if v.out.accepted() {
                j.violate(
                    Prop::C07,
                    "invalid-order-admitted",
                    &feat,
                    format!("recorded although: {}", v.exp.failing.join("; ")),
                );
            } else if v.out.kind == Kind::DispatchFailed {
                j.violate(
                    Prop::C07,
                    "invalid-order-not-refused-by-contract",
                    &feat,
                    format!("the contract answered Ok ({}) although: {}", v.out.why, v.exp.failing.join("; ")),
                );
            }
            // an existing order under the same id is untouched
            let key = if is_ask { crate::chain::ask_key(&id) } else { crate::chain::bid_key(&id) };
            if v.world_before.store.map.get(&key) != v.world_after.store.map.get(&key) && !v.out.accepted() {
                j.violate(
                    Prop::C07,
                    "existing-order-touched",
                    &feat,
                    "entry under the requested id changed on a refused request".into(),
                );
            }
        }
        Verdict::Either(_) => {}
    }
    // non-trivial: exactly one stated condition fails, or a valid request on a rounding /
    // restricted boundary
    if v.exp.failing.len() == 1 {
        j.nontrivial = true;
        j.label("single-fault");
    }
    if v.out.accepted()
        && v.exp.labels.iter().any(|l| {
            matches!(*l, "fee-tie" | "fee-rounds-to-zero" | "restricted-escrow")
        })
    {
        j.nontrivial = true;
    }
}

pub fn c08(j: &mut Judge, v: &StepView) {
    if let Req::ApproveAsk { id, .. } = v.req {
        match &v.exp.verdict {
            Verdict::Accept => {
                if !v.out.accepted() {
                    j.violate(
                        Prop::C08,
                        "valid-approval-refused",
                        &format!("{:?}", v.out.kind),
                        format!("approval meeting every condition was not accepted: {}", v.out.why),
                    );
                } else if matching_alt(v).is_none() {
                    j.violate(
                        Prop::C08,
                        "approval-effects",
                        "approve_ask",
                        format!("approval recorded / escrowed differently: {}", describe_mismatch(v)),
                    );
                }
            }
            Verdict::Refuse(_) => {
                if v.out.accepted() {
                    j.violate(
                        Prop::C08,
                        "invalid-approval-accepted",
                        &first_tag(&v.exp.failing),
                        format!("approved although: {}", v.exp.failing.join("; ")),
                    );
                }
            }
            Verdict::Either(_) => {}
        }
        let _ = id;
    }
    // a pending ask can be cancelled, expired or rejected
    if let Req::CancelAsk { id } | Req::ExpireAsk { id } | Req::RejectAsk { id, .. } = v.req {
        if let Some(a) = v.before.asks.get(id) {
            if a.class == AskClass::Pending && v.exp.verdict == Verdict::Accept {
                j.label("reversal-of-pending-ask");
                if !v.out.accepted() {
                    j.violate(
                        Prop::C08,
                        "pending-ask-cannot-exit",
                        v.req.kind(),
                        format!("{} on pending ask {} not carried out: {:?} {}", v.req.kind(), id, v.out.kind, v.out.why),
                    );
                }
            }
        }
    }
    if let Req::Match { ask_id, .. } = v.req {
        if v.out.accepted() {
            if let Some(a) = v.before.asks.get(ask_id) {
                if a.class == AskClass::Pending {
                    j.violate(
                        Prop::C08,
                        "pending-ask-matched",
                        "execute",
                        format!("ask {} was matched while pending approval", ask_id),
                    );
                }
            }
        }
    }
    if !v.out.accepted() {
        return;
    }
    // invariant: the approver-supplied amount equals the remaining size, in the base denom
    if let Some(cfg) = &v.after.cfg {
        for (id, a) in &v.after.asks {
            if let AskClass::Ready { denom, amount, .. } = &a.class {
                if *amount != a.size || denom != &cfg.base {
                    j.violate(
                        Prop::C08,
                        "approver-amount-tracks-size",
                        &feature(v),
                        format!(
                            "ask {}: remaining size {} but recorded approver amount {} {}",
                            id, a.size, amount, denom
                        ),
                    );
                }
            }
        }
    }
    // a cancel now returns to the approver exactly the unconsumed part (on a copy)
    let (ask_ids, _) = v.req.named();
    for id in &ask_ids {
        if let Some(a) = v.after.asks.get(id) {
            if let AskClass::Ready { approver, denom, .. } = &a.class {
                let mut w = v.world_after.clone();
                let out = w.execute(
                    &a.owner,
                    &[],
                    &serde_json::to_vec(&wire::m_cancel_ask(id)).unwrap(),
                );
                j.counters.probes += 1;
                if !out.accepted() {
                    j.violate(
                        Prop::C08,
                        "cancel-returns-unconsumed",
                        &feature(v),
                        format!("cancel of approved ask {} not carried out: {:?} {}", id, out.kind, out.why),
                    );
                } else {
                    let f = flows_of_moves(&out.moves);
                    // approver and owner may coincide / denominations may coincide: compare the
                    // approver's total in the base denomination
                    let mut want = Int256::from(a.size);
                    if &a.owner == approver && &a.base == denom {
                        want += Int256::from(a.size);
                    }
                    let got = f
                        .get(&(approver.clone(), denom.clone()))
                        .copied()
                        .unwrap_or_else(Int256::zero);
                    if got != want {
                        j.violate(
                            Prop::C08,
                            "cancel-returns-unconsumed",
                            &feature(v),
                            format!("cancel of ask {} returns {} {} to the approver, {} unconsumed", id, got, denom, want),
                        );
                    }
                }
                if let Some(t) = j.tracker.asks.get(id) {
                    if t.partial_calls >= 1 {
                        j.nontrivial = true;
                    }
                }
            }
        }
    }
}

pub fn c09(j: &mut Judge, v: &StepView) {
    // a fully correct fee-bearing bid that is not admitted: does the contract want another fee?
    if let (Req::CreateBid { id, base, price, quote, quote_size, size, .. }, Verdict::Accept, false, Some(x)) =
        (v.req, &v.exp.verdict, v.out.accepted(), v.exp.expected_fee)
    {
        for delta in [-2i128, -1, 1, 2] {
            let f = x as i128 + delta;
            if f < 0 {
                continue;
            }
            let f = f as u128;
            let fee = if f == 0 { None } else { Some((quote.as_str(), f)) };
            let msg = wire::m_create_bid(id, base, fee, price, quote, *quote_size, *size);
            let funds: Vec<(String, u128)> = if v.world_before.tables.restricted(quote) { vec![] } else { vec![(quote.clone(), quote_size + f)] };
            let mut w = v.world_before.clone();
            let out = w.execute(v.sender, &funds, &serde_json::to_vec(&msg).unwrap());
            j.counters.probes += 1;
            if out.accepted() {
                j.violate(
                    Prop::C09,
                    "entry-fee",
                    "create_bid:other-fee-wanted",
                    format!("the bid with the exact fee {} is refused ({}), the same bid with fee {} is admitted", x, v.out.why, f),
                );
                break;
            }
        }
    }
    if !v.out.accepted() {
        return;
    }
    let feat = feature(v);
    match v.req {
        Req::CreateBid { fee, quote, .. } => {
            if let Some(x) = v.exp.expected_fee {
                let got = fee.as_ref().map(|f| f.1).unwrap_or(0);
                if got != x {
                    j.violate(
                        Prop::C09,
                        "entry-fee",
                        "create_bid",
                        format!("bid admitted with fee {} where rate x total rounds to {}", got, x),
                    );
                }
                if let Some((d, a)) = fee {
                    if d != quote && *a > 0 {
                        j.violate(
                            Prop::C09,
                            "entry-fee",
                            "create_bid:denom",
                            format!("fee in {} for a quote in {}", d, quote),
                        );
                    }
                }
                if v.exp.labels.iter().any(|l| *l == "fee-tie" || *l == "fee-rounds-to-zero") {
                    j.nontrivial = true;
                }
            }
        }
        Req::Match { ask_id, bid_id, .. } => {
            // the ask fee at the configured rate, whatever the verdict on the request: when the
            // ask-fee account is no other party of the match its receipt is exactly that fee
            if let (Some((fee, Some(acc))), Some(a), Some(b), Some(cfg)) =
                (&v.exp.expected_ask_fee, v.before.asks.get(ask_id), v.before.bids.get(bid_id), &v.before.cfg)
            {
                let seller = match &a.class {
                    AskClass::Ready { approver, .. } => approver.clone(),
                    _ => a.owner.clone(),
                };
                let bid_fee_acc = cfg.bid_fee.as_ref().map(|f| f.0.clone());
                if acc != &b.owner && acc != &seller && Some(acc) != bid_fee_acc.as_ref() && acc != CONTRACT {
                    let real = flows_of_moves(&v.out.moves);
                    let got = real.get(&(acc.clone(), b.quote_denom.clone())).copied().unwrap_or_else(Int256::zero);
                    if got != Int256::from(*fee) {
                        j.violate(
                            Prop::C09,
                            "ask-fee",
                            &feat,
                            format!("ask-fee account received {} where the configured rate x executed gross rounds to {}", got, fee),
                        );
                    }
                    if *fee > 0 {
                        j.label("ask-fee-checked-by-flow");
                    }
                }
            }
            if v.exp.verdict == Verdict::Accept {
                match matching_alt(v) {
                    None => j.violate(
                        Prop::C09,
                        "match-fees",
                        &feat,
                        format!("fees of the match differ from rate x amount / pro-rata: {}", describe_mismatch(v)),
                    ),
                    Some(_) => {
                        // when the ask-fee account is no other party of the call its receipt is
                        // exactly the ask fee
                        if let Some(f) = &v.exp.match_facts {
                            if let Some(acc) = &f.ask_fee_account {
                                let others = [Some(&f.buyer), Some(&f.seller_side), f.bid_fee_account.as_ref()];
                                if !others.iter().any(|o| *o == Some(acc)) {
                                    let real = flows_of_moves(&v.out.moves);
                                    let q = v.before.bids.get(bid_id).map(|b| b.quote_denom.clone()).unwrap_or_default();
                                    let got = real.get(&(acc.clone(), q)).copied().unwrap_or_else(Int256::zero);
                                    if got != Int256::from(f.ask_fee) {
                                        j.violate(
                                            Prop::C09,
                                            "ask-fee",
                                            &feat,
                                            format!("ask-fee account received {} where rate x gross rounds to {}", got, f.ask_fee),
                                        );
                                    }
                                }
                            }
                            if f.tie_any || f.fee_zero_rounded {
                                j.nontrivial = true;
                            }
                        }
                    }
                }
            }
        }
        Req::CancelBid { .. } | Req::ExpireBid { .. } | Req::RejectBid { .. } => {
            if v.exp.verdict == Verdict::Accept && matching_alt(v).is_none() {
                j.violate(
                    Prop::C09,
                    "reversal-fee",
                    &feat,
                    format!("fee returned differs from the pro-rata share: {}", describe_mismatch(v)),
                );
            }
        }
        _ => {}
    }
    // invariant: for every open bid the fee still held is its original fee scaled by the
    // unspent fraction of its quote, to the nearest unit
    for (id, b) in &v.after.bids {
        if b.fee.is_none() || b.quote == 0 {
            continue;
        }
        if b.quote >= crate::model::TWO96 || b.fee_amount() >= crate::model::TWO96 {
            continue;
        }
        if let (Some(rq), Some(rf)) = (b.rem_quote(), b.rem_fee()) {
            let pr = prorata(b.fee_amount(), rq, b.quote);
            if !pr.allows(rf) {
                j.violate(
                    Prop::C09,
                    "held-fee-pro-rata",
                    &feat,
                    format!(
                        "bid {}: holds fee {} but {} x {}/{} rounds to {} (tie {})",
                        id,
                        rf,
                        b.fee_amount(),
                        rq,
                        b.quote,
                        pr.rounded,
                        pr.tie
                    ),
                );
            }
        }
    }
    // lifetime: when a fee-bearing bid leaves the book everything escrowed for it is out
    let (_, bid_ids) = v.req.named();
    for id in &bid_ids {
        if let Some(b) = v.before.bids.get(id) {
            if b.fee.is_some() {
                if let Some(t) = j.tracker.bids.get(id) {
                    if t.fund_calls >= 3 {
                        j.nontrivial = true;
                    }
                    if !v.after.bids.contains_key(id) && !t.entangled && !t.tainted && t.net.values().any(|x| !x.is_zero()) {
                        let net = t.net.clone();
                        j.violate(
                            Prop::C09,
                            "lifetime-sum",
                            &feat,
                            format!("bid {} left the book with {:?} of its escrow (fee included) unaccounted", id, net),
                        );
                    }
                }
            }
        }
    }
    let _ = is_refusal;
}
