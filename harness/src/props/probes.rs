//! Probe-based observers: every probe runs the real contract on a copy of the world.
//! C03 eligibility boundary sweep, C05 sender x request matrix, C06 exits.

use super::{first_tag, has_tag, is_refusal};
use crate::chain::{Outcome, World, CONTRACT};
use crate::exec::{Judge, Prop, StepView};
use crate::model::{self, flows_of_moves, flow_add, Ctx, Flows, Req, Verdict};
use crate::num::{parse, Dec, Parsed};
use crate::wire::{self, AskClass, Book, CfgChange};
use serde_json::Value;
use std::collections::BTreeSet;

fn run(w: &World, sender: &str, funds: &[(String, u128)], msg: &Value) -> (Outcome, World) {
    let mut c = w.clone();
    let out = c.execute(sender, funds, &serde_json::to_vec(msg).unwrap());
    (out, c)
}

fn verdict_of(w: &World, book: &Book, sender: &str, funds: &[(String, u128)], msg: &Value) -> model::Expect {
    let req = Req::from_value(msg);
    model::expect(
        &Ctx {
            book,
            tables: &w.tables,
            sender,
            funds,
        },
        &req,
    )
}

pub fn addresses(book: &Book) -> Vec<String> {
    let mut s = BTreeSet::new();
    if let Some(c) = &book.cfg {
        for a in c.executors.iter().chain(c.approvers.iter()) {
            s.insert(a.clone());
        }
        for f in [&c.ask_fee, &c.bid_fee].into_iter().flatten() {
            s.insert(f.0.clone());
        }
    }
    for a in book.asks.values() {
        s.insert(a.owner.clone());
        if let AskClass::Ready { approver, .. } = &a.class {
            s.insert(approver.clone());
        }
    }
    for b in book.bids.values() {
        s.insert(b.owner.clone());
    }
    s.insert("stranger0".to_string());
    s.into_iter().collect()
}

// ---------------------------------------------------------------- C03

fn respell(p: &str, how: usize) -> String {
    let p = p.trim_start_matches('+');
    match how {
        0 => {
            if p.contains('.') {
                format!("{}0", p)
            } else {
                format!("{}.0", p)
            }
        }
        1 => {
            if p.contains('.') {
                format!("0{}00", p)
            } else {
                format!("0{}.000", p)
            }
        }
        _ => format!("+{}", p),
    }
}

fn names_tainted_bid(j: &Judge, msg: &Value) -> bool {
    match Req::from_value(msg) {
        Req::Match { bid_id, .. } => j.tracker.bids.get(&bid_id).map(|t| t.tainted).unwrap_or(false),
        _ => false,
    }
}

fn check_match_verdict(j: &mut Judge, w: &World, book: &Book, sender: &str, funds: &[(String, u128)], msg: &Value, origin: &str) {
    let exp = verdict_of(w, book, sender, funds, msg);
    let (out, _) = run(w, sender, funds, msg);
    j.counters.probes += 1;
    judge_match(j, &exp, &out, msg, origin);
}

fn judge_match(j: &mut Judge, exp: &model::Expect, out: &Outcome, msg: &Value, origin: &str) {
    match &exp.verdict {
        Verdict::Refuse(_) => {
            if out.accepted() {
                let tag = first_tag(&exp.failing);
                // the beyond-96-bit rounding is one root cause wherever it is met
                let feat = if tag == "beyond96" { tag.clone() } else { format!("{}:{}", origin, tag) };
                j.violate(
                    Prop::C03,
                    "ineligible-match-accepted",
                    &feat,
                    format!("{} accepted although: {}", msg, exp.failing.join("; ")),
                );
            }
        }
        Verdict::Accept => {
            // no converse demand on a bid whose recorded amounts went through a product beyond
            // 96 bits earlier (B.7): the contract's own recomputation may differ by a unit
            if !out.accepted() && names_tainted_bid(j, msg) {
                j.label("converse-skipped-tainted-bid");
            } else if !out.accepted() {
                j.violate(
                    Prop::C03,
                    "eligible-match-refused",
                    &format!("{}:{:?}", origin, out.kind),
                    format!("{} meets every condition but was not carried out: {:?} {}", msg, out.kind, out.why),
                );
            }
        }
        Verdict::Either(_) => {}
    }
}

pub fn c03(j: &mut Judge, v: &StepView) {
    if let Req::Match { ask_id, bid_id, size, .. } = v.req {
        judge_match(j, v.exp, v.out, v.msg, "history");
        // limit-price protection, read off the flows when the four parties are distinct
        if v.out.accepted() && v.exp.verdict == Verdict::Accept {
            if let (Some(f), Some(a), Some(b)) = (&v.exp.match_facts, v.before.asks.get(ask_id), v.before.bids.get(bid_id)) {
                let distinct_denoms = v.before.cfg.as_ref().map(|c| c.base != b.quote_denom).unwrap_or(false) && a.base != b.quote_denom;
                if !f.coinciding && distinct_denoms {
                    let real = flows_of_moves(&v.out.moves);
                    let get = |acc: &str| -> u128 {
                        real.get(&(acc.to_string(), b.quote_denom.clone()))
                            .map(|x| x.to_string().parse::<u128>().unwrap_or(0))
                            .unwrap_or(0)
                    };
                    let seller_total = get(&f.seller_side) + f.ask_fee_account.as_ref().map(|x| get(x)).unwrap_or(0);
                    if let (Parsed::Num(ap), Parsed::Num(bp)) = (parse(&a.price), parse(&b.price)) {
                        let got = Dec::from_u128(seller_total);
                        if got.lt(&ap.mul_u128(*size)) {
                            j.violate(
                                Prop::C03,
                                "seller-limit",
                                "history",
                                format!("selling side credited {} quote for {} units with a limit of {}", seller_total, size, a.price),
                            );
                        }
                        if bp.mul_u128(*size).lt(&got) {
                            j.violate(
                                Prop::C03,
                                "buyer-limit",
                                "history",
                                format!("{} quote taken for {} units with a bid limit of {}", seller_total, size, b.price),
                            );
                        }
                    }
                }
            }
        }
    }
    // boundary sweep on a copy of the state after this step
    if !v.out.accepted() || j.probe_budget == 0 {
        return;
    }
    let book = v.after;
    let cfg = match &book.cfg {
        Some(c) => c,
        None => return,
    };
    if book.asks.is_empty() || book.bids.is_empty() {
        return;
    }
    j.probe_budget -= 1;
    let asks: Vec<_> = book.asks.values().collect();
    let bids: Vec<_> = book.bids.values().collect();
    let a = asks[j.pick(asks.len())];
    let b = bids[j.pick(bids.len())];
    let exec = crate::gen::at(&cfg.executors, j.pick(cfg.executors.len()), "acct0");
    let rem = b.rem_base().unwrap_or(0);
    let m = a.size.min(rem);
    let mut prices: Vec<String> = vec![
        a.price.clone(),
        b.price.clone(),
        respell(&a.price, 0),
        respell(&b.price, 1),
        respell(&a.price, 2),
        "abc".into(),
    ];
    if let (Parsed::Num(ap), Parsed::Num(bp)) = (parse(&a.price), parse(&b.price)) {
        let tick = Dec::tick(cfg.precision.min(28) as u32);
        if let Some(x) = ap.sub_pos(&tick) {
            if x.is_positive() {
                prices.push(x.to_plain_string());
            }
        }
        prices.push(bp.add_pos(&tick).to_plain_string());
        // a fraction of a tick beyond either limit (whole totals are possible when the size
        // carries more trailing zeros than the precision)
        if cfg.precision < 27 {
            let sub = Dec::tick(cfg.precision as u32 + 1);
            prices.push(bp.add_pos(&sub).to_plain_string());
            prices.push(ap.add_pos(&sub).to_plain_string());
            if let Some(x) = ap.sub_pos(&sub) {
                if x.is_positive() {
                    prices.push(x.to_plain_string());
                }
            }
        }
        // midpoint with one more decimal
        let mid = ap.add_pos(&bp).mul(&Dec { neg: false, mant: crate::num::u(5), scale: 1 });
        prices.push(mid.to_plain_string());
    }
    let mut sizes: Vec<u128> = vec![0, 1, m.saturating_sub(1), m, m + 1, a.size, rem, a.size + 1, rem + 1];
    sizes.sort();
    sizes.dedup();
    let partial_history = j
        .tracker
        .asks
        .values()
        .chain(j.tracker.bids.values())
        .any(|t| t.partial_calls >= 1);
    for p in &prices {
        for s in &sizes {
            let msg = wire::m_match(&a.id, &b.id, p, *s);
            check_match_verdict(j, v.world_after, book, &exec, &[], &msg, "sweep");
        }
    }
    if partial_history && m >= 1 {
        j.nontrivial = true;
    }
    // a non-executor with an otherwise eligible request; non-canonical ids
    let addrs = addresses(book);
    let non_exec: Vec<_> = addrs.iter().filter(|x| !cfg.executors.contains(x)).collect();
    if !non_exec.is_empty() {
        let who = non_exec[j.pick(non_exec.len())].clone();
        let msg = wire::m_match(&a.id, &b.id, &a.price, m.max(1));
        check_match_verdict(j, v.world_after, book, &who, &[], &msg, "sweep-sender");
    }
    let upper = a.id.to_uppercase();
    let msg = wire::m_match(&upper, &b.id, &a.price, m.max(1));
    check_match_verdict(j, v.world_after, book, &exec, &[], &msg, "sweep-id");
    let simple: String = b.id.chars().filter(|c| *c != '-').collect();
    let msg = wire::m_match(&a.id, &simple, &a.price, m.max(1));
    check_match_verdict(j, v.world_after, book, &exec, &[], &msg, "sweep-id");
}

// ---------------------------------------------------------------- C05

fn roles_of(book: &Book, who: &str) -> Vec<&'static str> {
    let mut r = vec![];
    if let Some(c) = &book.cfg {
        if c.executors.iter().any(|x| x == who) {
            r.push("executor");
        }
        if c.approvers.iter().any(|x| x == who) {
            r.push("approver");
        }
        if c.ask_fee.as_ref().map(|f| f.0 == who).unwrap_or(false) || c.bid_fee.as_ref().map(|f| f.0 == who).unwrap_or(false) {
            r.push("fee-account");
        }
    }
    if book.asks.values().any(|a| a.owner == who) {
        r.push("ask-owner");
    }
    if book.bids.values().any(|b| b.owner == who) {
        r.push("bid-owner");
    }
    r
}

/// Model-free: whatever id spelling a request used, the orders it actually changed or removed
/// tell which authority it needed. A cancel may only touch orders of the sender; expire / reject
/// / match / configuration only if the sender is a configured executor; approve only an approver.
fn judge_effects(j: &mut Judge, out: &Outcome, w_before: &World, w_after: &World, who: &str, executors: &[String], approvers: &[String], msg: &Value, origin: &str) {
    if !out.accepted() {
        return;
    }
    let req = Req::from_value(msg);
    let before = wire::read_book(&w_before.store);
    let after = wire::read_book(&w_after.store);
    let mut touched_owners: Vec<String> = vec![];
    for (k, a) in &before.asks {
        if after.asks.get(k) != Some(a) {
            touched_owners.push(a.owner.clone());
        }
    }
    for (k, b) in &before.bids {
        if after.bids.get(k) != Some(b) {
            touched_owners.push(b.owner.clone());
        }
    }
    let bad = match &req {
        Req::CancelAsk { .. } | Req::CancelBid { .. } => touched_owners.iter().any(|o| o != who),
        Req::ExpireAsk { .. } | Req::ExpireBid { .. } | Req::RejectAsk { .. } | Req::RejectBid { .. } | Req::Match { .. } => {
            !touched_owners.is_empty() && !executors.iter().any(|e| e == who)
        }
        Req::ApproveAsk { .. } => !touched_owners.is_empty() && !approvers.iter().any(|e| e == who),
        Req::Modify(_) => before.cfg != after.cfg && !executors.iter().any(|e| e == who),
        _ => false,
    };
    if bad {
        j.violate(
            Prop::C05,
            "acted-without-authority",
            &format!("{}:{}", origin, req.kind()),
            format!("{} from {} was carried out and changed orders of {:?} (executors {:?}, approvers {:?})", msg, who, touched_owners, executors, approvers),
        );
    }
}

fn judge_auth(j: &mut Judge, exp: &model::Expect, out: &Outcome, w_before: &World, w_after: &World, who: &str, roles: &[&str], msg: &Value, origin: &str) {
    if has_tag(&exp.failing, "auth:") {
        if !is_refusal(out) {
            let kind = Req::from_value(msg).kind();
            j.violate(
                Prop::C05,
                "unauthorized-not-refused",
                &format!("{}:{}:{}", origin, kind, if roles.is_empty() { "stranger".to_string() } else { roles.join("+") }),
                format!("{} from {} (roles {:?}) was answered {:?} {}", msg, who, roles, out.kind, out.why),
            );
        }
        if w_before.store.map != w_after.store.map || w_before.ledger != w_after.ledger {
            j.violate(
                Prop::C05,
                "unauthorized-changed-state",
                &format!("{}:{}", origin, Req::from_value(msg).kind()),
                format!("{} from {} changed the book, the configuration or a balance", msg, who),
            );
        }
    }
}

/// the book with the role lists the configuration requests asked for (not merely what the
/// contract stored)
fn with_configured_roles(book: &Book, j: &Judge) -> Book {
    let mut b = book.clone();
    if let (Some(c), Some((ex, ap))) = (&mut b.cfg, &j.tracker.configured_roles) {
        c.executors = ex.clone();
        c.approvers = ap.clone();
    }
    b
}

pub fn c05(j: &mut Judge, v: &StepView) {
    // the roles in force when this request was sent (track() has already advanced them if the
    // request was accepted)
    let roles_before = if v.out.accepted() {
        j.tracker.roles_before_last_accepted.clone()
    } else {
        j.tracker.configured_roles.clone()
    };
    let mut before_cfgd = v.before.clone();
    if let (Some(c), Some((ex, ap))) = (&mut before_cfgd.cfg, &roles_before) {
        c.executors = ex.clone();
        c.approvers = ap.clone();
    }
    let exp_cfgd = verdict_of(v.world_before, &before_cfgd, v.sender, v.funds, v.msg);
    let roles = roles_of(&before_cfgd, v.sender);
    judge_auth(j, &exp_cfgd, v.out, v.world_before, v.world_after, v.sender, &roles, v.msg, "history");
    if let Some(c) = &before_cfgd.cfg {
        judge_effects(j, v.out, v.world_before, v.world_after, v.sender, &c.executors, &c.approvers, v.msg, "history");
    }
    if !v.out.accepted() || j.probe_budget == 0 {
        return;
    }
    // the matrix, on copies of the state after this step
    let book_owned = with_configured_roles(v.after, j);
    let book = &book_owned;
    let cfg = match &book.cfg {
        Some(c) => c,
        None => return,
    };
    if book.asks.is_empty() && book.bids.is_empty() {
        return;
    }
    j.probe_budget -= 1;
    let w = v.world_after;
    let addrs = addresses(book);
    let mut reqs: Vec<(Value, Vec<(String, u128)>)> = vec![];
    let asks: Vec<_> = book.asks.values().collect();
    let bids: Vec<_> = book.bids.values().collect();
    if !asks.is_empty() {
        let a = asks[j.pick(asks.len())];
        reqs.push((wire::m_cancel_ask(&a.id), vec![]));
        reqs.push((wire::m_expire_ask(&a.id), vec![]));
        reqs.push((wire::m_reject_ask(&a.id, None), vec![]));
        if a.size > cfg.increment && cfg.increment > 0 {
            reqs.push((wire::m_reject_ask(&a.id, Some(cfg.increment)), vec![]));
        }
        if let Some(p) = asks.iter().find(|x| x.class == AskClass::Pending) {
            let funds = if w.tables.restricted(&cfg.base) { vec![] } else { vec![(cfg.base.clone(), p.size)] };
            reqs.push((wire::m_approve_ask(&p.id, &cfg.base, p.size), funds));
        }
    }
    if !bids.is_empty() {
        let b = bids[j.pick(bids.len())];
        reqs.push((wire::m_cancel_bid(&b.id), vec![]));
        reqs.push((wire::m_expire_bid(&b.id), vec![]));
        reqs.push((wire::m_reject_bid(&b.id, None), vec![]));
    }
    // an eligible pair if there is one, else any pair
    let mut pair: Option<Value> = None;
    'outer: for a in &asks {
        for b in &bids {
            let s = a.size.min(b.rem_base().unwrap_or(0)).max(1);
            let msg = wire::m_match(&a.id, &b.id, &a.price, s);
            let e = verdict_of(w, book, &crate::gen::at(&cfg.executors, 0, "acct0"), &[], &msg);
            if e.verdict == Verdict::Accept {
                pair = Some(msg);
                break 'outer;
            }
            if pair.is_none() {
                pair = Some(msg);
            }
        }
    }
    if let Some(m) = pair {
        reqs.push((m, vec![]));
    }
    reqs.push((CfgChange::default().to_modify(), vec![]));
    // the same orders named in other spellings of their ids (the validator accepts every UUID
    // spelling for cancel / expire / reject)
    {
        let how = j.pick(4);
        let respell = |id: &str| -> String {
            match how {
                0 => id.to_uppercase(),
                1 => id.chars().filter(|c| *c != '-').collect(),
                2 => format!("{{{}}}", id),
                _ => format!("urn:uuid:{}", id),
            }
        };
        if let Some(a) = asks.first() {
            if model::is_canonical_uuid(&a.id) {
                reqs.push((wire::m_cancel_ask(&respell(&a.id)), vec![]));
                reqs.push((wire::m_expire_ask(&respell(&a.id)), vec![]));
            }
        }
        if let Some(b) = bids.first() {
            if model::is_canonical_uuid(&b.id) {
                reqs.push((wire::m_cancel_bid(&respell(&b.id)), vec![]));
                reqs.push((wire::m_reject_bid(&respell(&b.id), None), vec![]));
            }
        }
    }
    let multi = addrs.iter().any(|a| roles_of(book, a).len() >= 2);
    if j.tracker.role_changes >= 1 {
        j.label("matrix-after-role-change");
        j.nontrivial = true;
    }
    if multi {
        j.label("matrix-with-multi-role-account");
        j.nontrivial = true;
    }
    for (msg, funds) in &reqs {
        for who in &addrs {
            if who == CONTRACT {
                continue;
            }
            let exp = verdict_of(w, book, who, funds, msg);
            let (out, w2) = run(w, who, funds, msg);
            j.counters.probes += 1;
            let roles = roles_of(book, who);
            judge_auth(j, &exp, &out, w, &w2, who, &roles, msg, "matrix");
            judge_effects(j, &out, w, &w2, who, &cfg.executors, &cfg.approvers, msg, "matrix");
        }
    }
}

// ---------------------------------------------------------------- C06

pub fn exits(j: &mut Judge, w: &World, book: &Book, origin: &str) {
    let cfg = match &book.cfg {
        Some(c) => c,
        None => return,
    };
    if cfg.executors.is_empty() {
        return;
    }
    let inc = cfg.increment.max(1);
    for (key, a) in &book.asks {
        let mut want = Flows::new();
        flow_add(&mut want, CONTRACT, &a.owner, &a.base, a.size);
        let mut cls = "plain";
        if let AskClass::Ready { approver, denom, amount } = &a.class {
            flow_add(&mut want, CONTRACT, approver, denom, *amount);
            cls = "approved";
        } else if a.class == AskClass::Pending {
            cls = "pending";
        }
        let want = model::prune(want);
        let exec = crate::gen::at(&cfg.executors, j.pick(cfg.executors.len()), "acct0");
        for (who, msg, what) in [
            (a.owner.clone(), wire::m_cancel_ask(key), "cancel_ask"),
            (exec, wire::m_expire_ask(key), "expire_ask"),
        ] {
            let (out, w2) = run(w, &who, &[], &msg);
            j.counters.probes += 1;
            check_exit(j, &out, &w2, w, &want, &crate::chain::ask_key(key), &format!("{}:{}:{}", origin, what, cls), key);
        }
        let t = j.tracker.asks.get(key).cloned();
        if a.size % inc != 0 || t.as_ref().map(|t| t.partial_rejects > 0 || t.legacy).unwrap_or(false) || j.tracker.fee_account_changes > 0 {
            j.nontrivial = true;
        }
        if a.size % inc != 0 {
            j.label("exit-of-non-lot-remainder");
        }
        if t.as_ref().map(|t| t.legacy).unwrap_or(false) {
            j.label("exit-of-legacy-id-order");
        }
    }
    for (key, b) in &book.bids {
        let (rb, rq, rf) = match (b.rem_base(), b.rem_quote(), b.rem_fee()) {
            (Some(x), Some(y), Some(z)) => (x, y, z),
            _ => continue,
        };
        // no verdict on orders whose arithmetic left the decidable zone (DESIGN 3.2): either an
        // earlier accepted request on them did, or price x remainder itself does
        let zone_ok = match crate::num::parse(&b.price) {
            crate::num::Parsed::Num(p) => p.mul_u128(rb).representable() && rb < crate::model::TWO96 && b.quote < crate::model::TWO96 && b.size < crate::model::TWO96,
            _ => false,
        };
        if !zone_ok || j.tracker.bids.get(key).map(|t| t.tainted).unwrap_or(false) {
            j.label("exit-skipped-outside-decidable-zone");
            continue;
        }
        let mut want = Flows::new();
        flow_add(&mut want, CONTRACT, &b.owner, &b.quote_denom, rq);
        flow_add(&mut want, CONTRACT, &b.owner, &b.quote_denom, rf);
        let want = model::prune(want);
        let exec = crate::gen::at(&cfg.executors, j.pick(cfg.executors.len()), "acct0");
        let cls = if b.fee.is_some() { "fee-bid" } else { "plain-bid" };
        for (who, msg, what) in [
            (b.owner.clone(), wire::m_cancel_bid(key), "cancel_bid"),
            (exec, wire::m_expire_bid(key), "expire_bid"),
        ] {
            let (out, w2) = run(w, &who, &[], &msg);
            j.counters.probes += 1;
            check_exit(j, &out, &w2, w, &want, &crate::chain::bid_key(key), &format!("{}:{}:{}", origin, what, cls), key);
        }
        let t = j.tracker.bids.get(key).cloned();
        if rb % inc != 0 || t.as_ref().map(|t| t.partial_rejects > 0 || t.legacy).unwrap_or(false) || j.tracker.fee_account_changes > 0 {
            j.nontrivial = true;
        }
        if rb % inc != 0 {
            j.label("exit-of-non-lot-remainder");
        }
        if t.as_ref().map(|t| t.legacy).unwrap_or(false) {
            j.label("exit-of-legacy-id-order");
        }
    }
}

#[allow(clippy::too_many_arguments)]
fn check_exit(j: &mut Judge, out: &Outcome, after: &World, before: &World, want: &Flows, key: &[u8], feat: &str, id: &str) {
    if !out.accepted() {
        j.violate(
            Prop::C06,
            "exit-refused",
            feat,
            format!("exit of open order {} not carried out: {:?} {}", id, out.kind, out.why),
        );
        return;
    }
    let got = flows_of_moves(&out.moves);
    if &got != want {
        j.violate(
            Prop::C06,
            "exit-payout",
            feat,
            format!("exit of {} paid {:?}, the remaining escrow is {:?}", id, got, want),
        );
    }
    if after.store.map.contains_key(key) {
        j.violate(Prop::C06, "order-not-gone", feat, format!("order {} still on the book after its exit", id));
    }
    for (k, val) in &before.store.map {
        if k.as_slice() != key && after.store.map.get(k) != Some(val) {
            j.violate(
                Prop::C06,
                "exit-touched-other-state",
                feat,
                format!("exit of {} changed entry {:?}", id, String::from_utf8_lossy(k)),
            );
        }
    }
}

pub fn c06(j: &mut Judge, v: &StepView) {
    if !v.out.accepted() {
        return;
    }
    exits(j, v.world_after, v.after, "state");
}
