//! C01 escrow solvency, C10 transfer mechanism, C11 order integrity.
//! C01 and C10 use no reference model at all.

use super::feature;
use crate::chain::{ask_key, bid_key, Kind, Msg, Outcome, Tables, CONTRACT, KEY_CONTRACT_INFO, KEY_VERSION_INFO};
use crate::exec::{Judge, Prop, StepView};
use crate::model::Req;
use crate::num::{parse, Dec, Parsed};
use crate::wire::{Ask, AskClass, Bid, Book, Ev};
use cosmwasm_std::Int256;
use std::collections::BTreeMap;

fn add(m: &mut BTreeMap<String, Int256>, d: &str, x: u128) {
    *m.entry(d.to_string()).or_insert_with(Int256::zero) += Int256::from(x);
}

/// what the open orders of a book are owed, per denomination; Err on an inconsistent record
pub fn owed(book: &Book) -> Result<BTreeMap<String, Int256>, String> {
    let mut m = BTreeMap::new();
    for a in book.asks.values() {
        add(&mut m, &a.base, a.size);
        if let AskClass::Ready { denom, amount, .. } = &a.class {
            add(&mut m, denom, *amount);
        }
    }
    for b in book.bids.values() {
        let q = b
            .rem_quote()
            .ok_or_else(|| format!("bid {} spent more quote than it has", b.id))?;
        let f = b
            .rem_fee()
            .ok_or_else(|| format!("bid {} spent more fee than it has", b.id))?;
        add(&mut m, &b.quote_denom, q);
        add(&mut m, &b.quote_denom, f);
    }
    for b in book.legacy_bids.values() {
        let mut q = Int256::from(b.quote);
        let mut f = Int256::from(b.fee.as_ref().map(|x| x.1).unwrap_or(0));
        for e in &b.events {
            let (eq, ef) = match e {
                Ev::Fill { quote, fee, .. } => (*quote, *fee),
                Ev::Refund { quote, fee } => (*quote, *fee),
                Ev::Reject { quote, fee, .. } => (*quote, *fee),
            };
            q -= Int256::from(eq);
            f -= Int256::from(ef.unwrap_or(0));
        }
        *m.entry(b.quote_denom.clone()).or_insert_with(Int256::zero) += q + f;
    }
    m.retain(|_, v| !v.is_zero());
    Ok(m)
}

fn ask_owed(a: &Ask) -> BTreeMap<String, Int256> {
    let mut m = BTreeMap::new();
    add(&mut m, &a.base, a.size);
    if let AskClass::Ready { denom, amount, .. } = &a.class {
        add(&mut m, denom, *amount);
    }
    m.retain(|_, v| !v.is_zero());
    m
}

fn bid_owed(b: &Bid) -> BTreeMap<String, Int256> {
    let mut m = BTreeMap::new();
    add(&mut m, &b.quote_denom, b.rem_quote().unwrap_or(0));
    add(&mut m, &b.quote_denom, b.rem_fee().unwrap_or(0));
    m.retain(|_, v| !v.is_zero());
    m
}

fn nz(m: &BTreeMap<String, Int256>) -> BTreeMap<String, Int256> {
    m.iter()
        .filter(|(_, v)| !v.is_zero())
        .map(|(k, v)| (k.clone(), *v))
        .collect()
}

fn sum(a: &BTreeMap<String, Int256>, b: &BTreeMap<String, Int256>) -> BTreeMap<String, Int256> {
    let mut m = a.clone();
    for (k, v) in b {
        *m.entry(k.clone()).or_insert_with(Int256::zero) += *v;
    }
    nz(&m)
}

pub fn c01(j: &mut Judge, v: &StepView) {
    // Once an accepted request of this history went through a product beyond 96 bits, amounts
    // recorded for the order it touched may be off by a unit against what the contract later
    // recomputes (known finding B.7); the exact ledger identities then carry that unit for the
    // rest of the history, so the case is no longer judged.
    if j.tracker.asks.values().chain(j.tracker.bids.values()).any(|t| t.tainted) {
        j.label("case-left-decidable-zone");
        return;
    }
    if v.out.kind == Kind::DispatchFailed && v.out.why.contains("insufficient contract funds") {
        j.violate(
            Prop::C01,
            "unfundable-payout",
            &feature(v),
            format!("request answered with payouts the contract cannot fund: {}", v.out.why),
        );
        return;
    }
    if !v.out.accepted() {
        return;
    }
    // (1) holdings == owed, per denomination
    match owed(v.after) {
        Err(e) => j.violate(Prop::C01, "inconsistent-record", &feature(v), e),
        Ok(o) => {
            let held = v.world_after.contract_balances();
            if held != o {
                j.violate(
                    Prop::C01,
                    "holdings-vs-owed",
                    &feature(v),
                    format!("contract holds {:?} but open orders are owed {:?}", held, o),
                );
            }
        }
    }
    // (2) order by order
    let (ask_ids, bid_ids) = v.req.named();
    let empty = BTreeMap::new();
    let overlap = match v.req {
        Req::Match { ask_id, bid_id, .. } => {
            match (v.before.asks.get(ask_id), v.before.bids.get(bid_id), &v.before.cfg) {
                (Some(a), Some(b), Some(c)) => b.quote_denom == a.base || b.quote_denom == c.base,
                _ => false,
            }
        }
        _ => false,
    };
    let entangled = ask_ids.iter().any(|i| j.tracker.asks.get(i).map(|t| t.entangled).unwrap_or(false))
        || bid_ids.iter().any(|i| j.tracker.bids.get(i).map(|t| t.entangled).unwrap_or(false));
    let first_entanglement = ask_ids.iter().all(|i| j.tracker.asks.get(i).map(|t| t.entangle_count <= 1).unwrap_or(true))
        && bid_ids.iter().all(|i| j.tracker.bids.get(i).map(|t| t.entangle_count <= 1).unwrap_or(true));
    if entangled && !(overlap && first_entanglement) {
        // per-order attribution was lost in an earlier match over overlapping denominations;
        // the per-denomination identity above still covers these orders
        j.label("per-order-check-skipped-entangled");
    } else if overlap {
        j.label("match-denominations-overlap");
        let mut real = BTreeMap::new();
        let mut want = BTreeMap::new();
        for id in &ask_ids {
            real = sum(&real, j.tracker.asks.get(id).map(|t| &t.net).unwrap_or(&empty));
            if let Some(a) = v.after.asks.get(id) {
                want = sum(&want, &ask_owed(a));
            }
        }
        for id in &bid_ids {
            real = sum(&real, j.tracker.bids.get(id).map(|t| &t.net).unwrap_or(&empty));
            if let Some(b) = v.after.bids.get(id) {
                want = sum(&want, &bid_owed(b));
            }
        }
        if real != want {
            j.violate(
                Prop::C01,
                "per-order-balance",
                &feature(v),
                format!("the two matched orders together received-minus-paid {:?}, recorded remaining {:?}", real, want),
            );
        }
    } else {
        for id in &ask_ids {
            let real = nz(j.tracker.asks.get(id).map(|t| &t.net).unwrap_or(&empty));
            let want = v.after.asks.get(id).map(ask_owed).unwrap_or_default();
            if real != want {
                j.violate(
                    Prop::C01,
                    "per-order-balance",
                    &feature(v),
                    format!(
                        "ask {}: received minus paid on its behalf {:?}, recorded remaining {:?} ({})",
                        id,
                        real,
                        want,
                        if v.after.asks.contains_key(id) { "open" } else { "gone" }
                    ),
                );
            }
        }
        for id in &bid_ids {
            let real = nz(j.tracker.bids.get(id).map(|t| &t.net).unwrap_or(&empty));
            let want = v.after.bids.get(id).map(bid_owed).unwrap_or_default();
            if real != want {
                j.violate(
                    Prop::C01,
                    "per-order-balance",
                    &feature(v),
                    format!(
                        "bid {}: received minus paid on its behalf {:?}, recorded remaining {:?} ({})",
                        id,
                        real,
                        want,
                        if v.after.bids.contains_key(id) { "open" } else { "gone" }
                    ),
                );
            }
        }
    }
    // non-trivial: >= 3 accepted fund-moving calls on one order, one of them a partial
    let nt = ask_ids
        .iter()
        .filter_map(|i| j.tracker.asks.get(i))
        .chain(bid_ids.iter().filter_map(|i| j.tracker.bids.get(i)))
        .any(|t| t.fund_calls >= 3 && t.partial_calls >= 1);
    if nt {
        j.nontrivial = true;
    }
}

// ---------------------------------------------------------------- C10

pub fn c10_messages(j: &mut Judge, sender: &str, kind: &str, out: &Outcome, tables: &Tables) {
    if !matches!(out.kind, Kind::Accepted | Kind::DispatchFailed) {
        return;
    }
    let pull_allowed = kind == "create_ask" || kind == "create_bid" || kind == "approve_ask";
    let mut kinds_moved = std::collections::BTreeSet::new();
    for (i, s) in out.subs.iter().enumerate() {
        if !s.plain {
            j.violate(
                Prop::C10,
                "other-message",
                kind,
                format!("message {} asks for a reply or sets a gas limit", i),
            );
        }
        match &s.msg {
            Msg::Other(w) => j.violate(
                Prop::C10,
                "other-message",
                kind,
                format!("message {} is neither a bank send nor a marker transfer: {}", i, w),
            ),
            Msg::Bank { to: _, coins } => {
                if coins.len() != 1 {
                    j.violate(
                        Prop::C10,
                        "bank-send-shape",
                        kind,
                        format!("message {}: bank send with {} coins", i, coins.len()),
                    );
                }
                for (d, a) in coins {
                    kinds_moved.insert(tables.kind(d));
                    if *a == 0 {
                        j.violate(
                            Prop::C10,
                            "zero-amount",
                            &format!("{}:bank", kind),
                            format!("message {}: bank send of 0 {}", i, d),
                        );
                    }
                    if tables.restricted(d) {
                        j.violate(
                            Prop::C10,
                            "mechanism-mismatch",
                            &format!("{}:bank-for-restricted", kind),
                            format!("message {}: bank send of restricted marker {}", i, d),
                        );
                    }
                }
            }
            Msg::Marker {
                admin,
                from,
                to,
                denom,
                amount,
            } => {
                if admin != CONTRACT {
                    j.violate(
                        Prop::C10,
                        "marker-transfer-shape",
                        kind,
                        format!("message {}: administrator {} is not the contract", i, admin),
                    );
                }
                let amt = amount.as_ref().and_then(|a| a.parse::<u128>().ok());
                match (denom, amt) {
                    (Some(d), Some(a)) => {
                        kinds_moved.insert(tables.kind(d));
                        if a == 0 {
                            j.violate(
                                Prop::C10,
                                "zero-amount",
                                &format!("{}:marker", kind),
                                format!("message {}: marker transfer of 0 {}", i, d),
                            );
                        }
                        if !tables.restricted(d) {
                            j.violate(
                                Prop::C10,
                                "mechanism-mismatch",
                                &format!("{}:marker-for-unrestricted", kind),
                                format!(
                                    "message {}: marker transfer of {} which is {:?}",
                                    i,
                                    d,
                                    tables.kind(d)
                                ),
                            );
                        }
                    }
                    _ => j.violate(
                        Prop::C10,
                        "marker-transfer-shape",
                        kind,
                        format!("message {}: amount missing or unparsable: {:?} {:?}", i, denom, amount),
                    ),
                }
                let payout = from == CONTRACT;
                let pull = from == sender && to == CONTRACT && pull_allowed;
                if !(payout || pull) {
                    j.violate(
                        Prop::C10,
                        "transfer-source",
                        kind,
                        format!(
                            "message {}: marker transfer from {} to {} (sender {})",
                            i, from, to, sender
                        ),
                    );
                }
            }
        }
    }
    if kinds_moved.len() >= 2 {
        j.nontrivial = true;
        j.label("mixed-mechanisms-in-one-response");
    }
}

pub fn c10(j: &mut Judge, v: &StepView) {
    c10_messages(j, v.sender, v.req.kind(), v.out, &v.world_after.tables);
    // conversely: each denomination that moved out of the contract did so by the mechanism
    // its own type dictates -- covered per message above (bank for non-restricted, marker
    // transfer for restricted), independently for each coin.
}

// ---------------------------------------------------------------- C11

fn price_ok(p: &str, precision: u128) -> Result<Dec, String> {
    match parse(p) {
        Parsed::Num(d) => {
            if !d.is_positive() {
                return Err(format!("price {:?} not positive", p));
            }
            if precision <= 28 {
                let scaled = d.mul(&Dec {
                    neg: false,
                    mant: crate::num::pow10(precision as u32),
                    scale: 0,
                });
                if scaled.representable() && !scaled.is_integer() {
                    return Err(format!("price {:?} finer than precision {}", p, precision));
                }
            }
            Ok(d)
        }
        Parsed::Garbage => Err(format!("price {:?} is not a number", p)),
        Parsed::Unclear => Ok(Dec::zero()), // no verdict
    }
}

pub fn consistent_book(book: &Book, tainted_bids: &std::collections::BTreeSet<String>) -> Vec<String> {
    let mut bad = vec![];
    let cfg = match &book.cfg {
        Some(c) => c,
        None => return bad,
    };
    for (k, why) in &book.undecodable {
        bad.push(format!("entry {:?} does not decode: {}", String::from_utf8_lossy(k), why));
    }
    for (key, a) in &book.asks {
        if key != &a.id {
            bad.push(format!("ask stored under {} carries id {}", key, a.id));
        }
        if a.size == 0 {
            bad.push(format!("ask {} has size 0", key));
        }
        let plain = a.class == AskClass::Basic;
        if plain != (a.base == cfg.base) {
            bad.push(format!("ask {}: class {:?} with base {}", key, a.class, a.base));
        }
        if !plain && !cfg.convertibles.contains(&a.base) {
            bad.push(format!("ask {}: base {} is not convertible", key, a.base));
        }
        if !cfg.quotes.contains(&a.quote) {
            bad.push(format!("ask {}: quote {} not traded", key, a.quote));
        }
        if let Err(e) = price_ok(&a.price, cfg.precision) {
            bad.push(format!("ask {}: {}", key, e));
        }
    }
    for (key, b) in &book.bids {
        if key != &b.id {
            bad.push(format!("bid stored under {} carries id {}", key, b.id));
        }
        match (b.rem_base(), b.rem_quote(), b.rem_fee()) {
            (Some(rb), Some(rq), Some(_)) => {
                if rb == 0 {
                    bad.push(format!("bid {} has no unfilled size", key));
                }
                match price_ok(&b.price, cfg.precision) {
                    Err(e) => bad.push(format!("bid {}: {}", key, e)),
                    Ok(p) => {
                        // judged exactly inside the decidable zone only: a product beyond 96 bits
                        // is rounded by the contract's decimals (DESIGN 3.2), and so is everything
                        // that later happens to an order once it went through such a product
                        let want = p.mul_u128(rb);
                        if !p.is_zero() && want.representable() && !tainted_bids.contains(key) {
                            if want.as_u128() != Some(rq) {
                                bad.push(format!(
                                    "bid {}: unspent quote {} is not price {} x unfilled size {}",
                                    key, rq, b.price, rb
                                ));
                            }
                        }
                    }
                }
            }
            _ => bad.push(format!("bid {}: spent amounts exceed originals", key)),
        }
        if b.base_denom != cfg.base {
            bad.push(format!("bid {}: base {} is not the contract's", key, b.base_denom));
        }
        if !cfg.quotes.contains(&b.quote_denom) {
            bad.push(format!("bid {}: quote {} not traded", key, b.quote_denom));
        }
        if let Some((d, _)) = &b.fee {
            if d != &b.quote_denom {
                bad.push(format!("bid {}: fee denominated in {}", key, d));
            }
        }
    }
    bad
}

pub fn c11(j: &mut Judge, v: &StepView) {
    if !v.out.accepted() {
        // rolled back by the chain; nothing can have changed
        if v.world_before.store.map != v.world_after.store.map {
            j.violate(
                Prop::C11,
                "refused-call-changed-state",
                v.req.kind(),
                "storage differs after a refused call".into(),
            );
        }
        return;
    }
    let (ask_ids, bid_ids) = v.req.named();
    // raw storage diff: changed keys must belong to the named orders (or the configuration
    // for a configuration request)
    let mut allowed: Vec<Vec<u8>> = vec![];
    for id in &ask_ids {
        allowed.push(ask_key(id));
    }
    for id in &bid_ids {
        allowed.push(bid_key(id));
    }
    if matches!(v.req, Req::Modify(_)) {
        allowed.push(KEY_CONTRACT_INFO.to_vec());
    }
    let sb = &v.world_before.store.map;
    let sa = &v.world_after.store.map;
    for k in sb.keys().chain(sa.keys()) {
        if sb.get(k) != sa.get(k) && !allowed.contains(k) {
            let what = if k.as_slice() == KEY_CONTRACT_INFO {
                "configuration"
            } else if k.as_slice() == KEY_VERSION_INFO {
                "version-record"
            } else {
                "other-order"
            };
            j.violate(
                Prop::C11,
                "interference",
                &format!("{}:{}", v.req.kind(), what),
                format!(
                    "entry {:?} changed although the request does not name it",
                    String::from_utf8_lossy(k)
                ),
            );
        }
    }
    // immutable terms / monotone remainders of the named orders
    for id in &ask_ids {
        if let (Some(x), Some(y)) = (v.before.asks.get(id), v.after.asks.get(id)) {
            if x.id != y.id || x.owner != y.owner || x.price != y.price || x.base != y.base || x.quote != y.quote {
                j.violate(
                    Prop::C11,
                    "immutable-terms",
                    &format!("{}:ask", v.req.kind()),
                    format!("ask {} changed from {:?} to {:?}", id, x, y),
                );
            }
            if y.size > x.size {
                j.violate(
                    Prop::C11,
                    "remainder-grew",
                    &format!("{}:ask", v.req.kind()),
                    format!("ask {} size {} -> {}", id, x.size, y.size),
                );
            }
            let ok = match (&x.class, &y.class) {
                (AskClass::Basic, AskClass::Basic) => true,
                (AskClass::Pending, AskClass::Pending) => true,
                (AskClass::Pending, AskClass::Ready { .. }) => true,
                (
                    AskClass::Ready {
                        approver: a1,
                        denom: d1,
                        amount: m1,
                    },
                    AskClass::Ready {
                        approver: a2,
                        denom: d2,
                        amount: m2,
                    },
                ) => a1 == a2 && d1 == d2 && m2 <= m1,
                _ => false,
            };
            if !ok {
                j.violate(
                    Prop::C11,
                    "class-transition",
                    v.req.kind(),
                    format!("ask {} class {:?} -> {:?}", id, x.class, y.class),
                );
            }
        }
    }
    for id in &bid_ids {
        if let (Some(x), Some(y)) = (v.before.bids.get(id), v.after.bids.get(id)) {
            if x.id != y.id
                || x.owner != y.owner
                || x.price != y.price
                || x.base_denom != y.base_denom
                || x.quote_denom != y.quote_denom
                || x.size != y.size
                || x.quote != y.quote
                || x.fee != y.fee
            {
                j.violate(
                    Prop::C11,
                    "immutable-terms",
                    &format!("{}:bid", v.req.kind()),
                    format!("bid {} changed from {:?} to {:?}", id, x, y),
                );
            }
            if y.acc_base < x.acc_base || y.acc_quote < x.acc_quote || y.acc_fee < x.acc_fee {
                j.violate(
                    Prop::C11,
                    "remainder-grew",
                    &format!("{}:bid", v.req.kind()),
                    format!("bid {} spent amounts decreased: {:?} -> {:?}", id, x, y),
                );
            }
        }
    }
    let tainted: std::collections::BTreeSet<String> = j.tracker.bids.iter().filter(|(_, t)| t.tainted).map(|(k, _)| k.clone()).collect();
    if !tainted.is_empty() {
        j.label("orders-outside-decidable-zone");
    }
    for b in consistent_book(v.after, &tainted) {
        j.violate(Prop::C11, "inconsistent-order", v.req.kind(), b);
    }
    // non-trivial: accepted while >= 2 other orders were open on the same side
    let others_a = v.before.asks.len() - ask_ids.iter().filter(|i| v.before.asks.contains_key(*i)).count();
    let others_b = v.before.bids.len() - bid_ids.iter().filter(|i| v.before.bids.contains_key(*i)).count();
    if (!ask_ids.is_empty() && others_a >= 2) || (!bid_ids.is_empty() && others_b >= 2) {
        j.nontrivial = true;
    }
    if ask_ids.iter().any(|i| v.before.bids.contains_key(i)) || bid_ids.iter().any(|i| v.before.asks.contains_key(i)) {
        j.label("id-shared-across-sides");
    }
}
