//! C16 queries, C17 response attributes.

use super::matching_alt;
use crate::chain::{ask_key, bid_key, KEY_CONTRACT_INFO, KEY_VERSION_INFO};
use crate::exec::{Judge, Prop, ShadowOrder, StepView};
use crate::model::{flows_of_moves, Req, Verdict};
use crate::num::{parse, Parsed};
use crate::wire::{self, AskClass};
use cosmwasm_std::Int256;
use serde_json::Value;

// ---------------------------------------------------------------- C16

fn same_json(a: &[u8], b: &[u8]) -> bool {
    match (serde_json::from_slice::<Value>(a), serde_json::from_slice::<Value>(b)) {
        (Ok(x), Ok(y)) => x == y,
        _ => false,
    }
}

pub fn c16(j: &mut Judge, v: &StepView) {
    let w = v.world_after;
    let book = v.after;
    let (ask_ids, bid_ids) = v.req.named();
    // ids to ask about
    let mut ids: Vec<(String, &'static str)> = vec![];
    for id in ask_ids.iter().chain(bid_ids.iter()) {
        ids.push((id.clone(), "named"));
        ids.push((id.to_uppercase(), "upper-case"));
        ids.push((id.chars().filter(|c| *c != '-').collect(), "un-hyphenated"));
        ids.push((format!("{{{}}}", id), "braced"));
    }
    if let Some(id) = j.tracker.closed_asks.iter().next().cloned() {
        ids.push((id, "closed"));
    }
    if let Some(id) = j.tracker.closed_bids.iter().next_back().cloned() {
        ids.push((id, "closed"));
    }
    let open_a: Vec<String> = book.asks.keys().cloned().collect();
    let open_b: Vec<String> = book.bids.keys().cloned().collect();
    if !open_a.is_empty() {
        ids.push((open_a[j.pick(open_a.len())].clone(), "open"));
    }
    if !open_b.is_empty() {
        ids.push((open_b[j.pick(open_b.len())].clone(), "open"));
    }
    ids.push(("00000000-0000-4000-8000-00000000ffff".to_string(), "never-used"));
    ids.push(("not-a-uuid".to_string(), "malformed"));
    ids.push((String::new(), "malformed"));
    let before_bytes = w.store.map.clone();
    let before_writes = w.store.writes;
    for (id, class) in &ids {
        for side in ["ask", "bid"] {
            let (msg, key) = if side == "ask" {
                (wire::q_get_ask(id), ask_key(id))
            } else {
                (wire::q_get_bid(id), bid_key(id))
            };
            let res = w.query(&serde_json::to_vec(&msg).unwrap());
            j.counters.probes += 1;
            let raw = w.store.map.get(&key);
            // legacy-format bids cannot be read through the current query: no demand
            if side == "bid" && raw.map(|r| wire::is_v2_bid(r)).unwrap_or(false) {
                continue;
            }
            match (&res, raw) {
                (Ok(bytes), Some(r)) => {
                    if !same_json(bytes, r) {
                        j.violate(
                            Prop::C16,
                            "query-differs-from-book",
                            &format!("get_{}:{}", side, class),
                            format!("query for {} {} returns {} but the book holds {}", side, id, String::from_utf8_lossy(bytes), String::from_utf8_lossy(r)),
                        );
                    }
                }
                (Ok(bytes), None) => j.violate(
                    Prop::C16,
                    "query-answers-for-absent-order",
                    &format!("get_{}:{}", side, class),
                    format!("query for {} {} returns {} but no such order is on the book", side, id, String::from_utf8_lossy(bytes)),
                ),
                (Err(e), Some(_)) => j.violate(
                    Prop::C16,
                    "query-fails-for-open-order",
                    &format!("get_{}:{}", side, class),
                    format!("query for {} {} fails ({}) although the order is on the book", side, id, e),
                ),
                (Err(_), None) => {}
            }
            if *class == "closed" {
                j.nontrivial = true;
            }
        }
    }
    for (msg, key, what) in [
        (wire::q_contract_info(), KEY_CONTRACT_INFO, "get_contract_info"),
        (wire::q_version_info(), KEY_VERSION_INFO, "get_version_info"),
    ] {
        let res = w.query(&serde_json::to_vec(&msg).unwrap());
        match (res, w.store.map.get(key)) {
            (Ok(bytes), Some(r)) => {
                if !same_json(&bytes, r) {
                    j.violate(
                        Prop::C16,
                        "query-differs-from-book",
                        what,
                        format!("{} returns {} but storage holds {}", what, String::from_utf8_lossy(&bytes), String::from_utf8_lossy(r)),
                    );
                }
            }
            (Ok(_), None) => j.violate(Prop::C16, "query-answers-for-absent-order", what, format!("{} answers without a stored record", what)),
            (Err(e), Some(_)) => j.violate(Prop::C16, "query-fails-for-open-order", what, format!("{} fails: {}", what, e)),
            (Err(_), None) => {}
        }
    }
    // an order that this very request completely filled, cancelled, expired or rejected (by the
    // reference model, not by what is left in storage) must no longer be answered
    if v.out.accepted() && v.exp.verdict == Verdict::Accept && !v.exp.alts.is_empty() {
        for id in &ask_ids {
            if v.before.asks.contains_key(id) && v.exp.alts.iter().all(|e| !e.asks.contains_key(id)) {
                if let Ok(bytes) = w.query(&serde_json::to_vec(&wire::q_get_ask(id)).unwrap()) {
                    j.violate(
                        Prop::C16,
                        "query-answers-for-closed-order",
                        &format!("get_ask:{}", v.req.kind()),
                        format!("ask {} was completely {} yet the query still returns {}", id, v.req.kind(), String::from_utf8_lossy(&bytes)),
                    );
                }
                j.nontrivial = true;
            }
        }
        for id in &bid_ids {
            if v.before.bids.contains_key(id) && v.exp.alts.iter().all(|e| !e.bids.contains_key(id)) {
                if let Ok(bytes) = w.query(&serde_json::to_vec(&wire::q_get_bid(id)).unwrap()) {
                    j.violate(
                        Prop::C16,
                        "query-answers-for-closed-order",
                        &format!("get_bid:{}", v.req.kind()),
                        format!("bid {} was completely {} yet the query still returns {}", id, v.req.kind(), String::from_utf8_lossy(&bytes)),
                    );
                }
                j.nontrivial = true;
            }
        }
    }
    // conversely, every order the reference model has on the book after this request is
    // answered, with the remaining amounts the model gives it
    if v.out.accepted() && v.exp.verdict == Verdict::Accept && v.exp.alts.len() == 1 {
        let e = &v.exp.alts[0];
        for (id, a) in &e.asks {
            match w.query(&serde_json::to_vec(&wire::q_get_ask(id)).unwrap()).map(|b| wire::decode_ask(&b)) {
                Ok(Ok(got)) if &got == a => {}
                other => j.violate(
                    Prop::C16,
                    "open-order-not-reported",
                    &format!("get_ask:{}", v.req.kind()),
                    format!("ask {} should be on the book as {:?} after this request; the query gives {:?}", id, a, other),
                ),
            }
        }
        for (id, b) in &e.bids {
            match w.query(&serde_json::to_vec(&wire::q_get_bid(id)).unwrap()).map(|x| wire::decode_bid(&x)) {
                Ok(Ok(got)) if &got == b => {}
                other => j.violate(
                    Prop::C16,
                    "open-order-not-reported",
                    &format!("get_bid:{}", v.req.kind()),
                    format!("bid {} should be on the book as {:?} after this request; the query gives {:?}", id, b, other),
                ),
            }
        }
    }
    if w.store.map != before_bytes || w.store.writes != before_writes {
        j.violate(Prop::C16, "query-modified-state", "any", "storage changed while only queries ran".into());
    }
    // what a query reports is what a cancel returns
    for id in ask_ids.iter().filter(|i| book.asks.contains_key(*i)) {
        let res = w.query(&serde_json::to_vec(&wire::q_get_ask(id)).unwrap());
        if let Ok(bytes) = res {
            if let Ok(a) = wire::decode_ask(&bytes) {
                let mut c = w.clone();
                let out = c.execute(&a.owner, &[], &serde_json::to_vec(&wire::m_cancel_ask(id)).unwrap());
                if out.accepted() {
                    let f = flows_of_moves(&out.moves);
                    let mut want = crate::model::Flows::new();
                    crate::model::flow_add(&mut want, crate::chain::CONTRACT, &a.owner, &a.base, a.size);
                    if let AskClass::Ready { approver, denom, amount } = &a.class {
                        crate::model::flow_add(&mut want, crate::chain::CONTRACT, approver, denom, *amount);
                    }
                    if f != crate::model::prune(want.clone()) {
                        j.violate(
                            Prop::C16,
                            "reported-amounts-vs-cancel",
                            "ask",
                            format!("query reports {:?} but a cancel pays {:?}", a, f),
                        );
                    }
                }
                if j.tracker.asks.get(id).map(|t| t.modified >= 3).unwrap_or(false) {
                    j.nontrivial = true;
                }
            }
        }
    }
    for id in bid_ids.iter().filter(|i| book.bids.contains_key(*i)) {
        // no verdict where the bid's arithmetic left the decidable zone (a cancel recomputes
        // price x remainder in 96-bit decimals; DESIGN 3.2 / B.7)
        let zone_ok = book.bids.get(id).map(|b| match (parse(&b.price), b.rem_base()) {
            (Parsed::Num(p), Some(rb)) => p.mul_u128(rb).representable() && p.mul_u128(b.size).representable() && b.size < crate::model::TWO96 && b.quote < crate::model::TWO96,
            _ => false,
        }).unwrap_or(false);
        if !zone_ok || j.tracker.bids.get(id).map(|t| t.tainted).unwrap_or(false) {
            j.label("cancel-probe-skipped-outside-decidable-zone");
            continue;
        }
        let res = w.query(&serde_json::to_vec(&wire::q_get_bid(id)).unwrap());
        if let Ok(bytes) = res {
            if let Ok(b) = wire::decode_bid(&bytes) {
                let mut c = w.clone();
                let out = c.execute(&b.owner, &[], &serde_json::to_vec(&wire::m_cancel_bid(id)).unwrap());
                if out.accepted() {
                    let f = flows_of_moves(&out.moves);
                    let got = f.get(&(b.owner.clone(), b.quote_denom.clone())).copied().unwrap_or_else(Int256::zero);
                    let want = Int256::from(b.rem_quote().unwrap_or(0)) + Int256::from(b.rem_fee().unwrap_or(0));
                    if got != want {
                        j.violate(
                            Prop::C16,
                            "reported-amounts-vs-cancel",
                            "bid",
                            format!("query reports unspent {} but a cancel pays the owner {}", want, got),
                        );
                    }
                }
                if j.tracker.bids.get(id).map(|t| t.modified >= 3).unwrap_or(false) {
                    j.nontrivial = true;
                }
            }
        }
    }
}

// ---------------------------------------------------------------- C17

fn action_ok(kind: &str, action: &str) -> bool {
    action == kind || (kind == "execute" && action == "execute_match")
}

fn attr_num(v: &StepView, k: &str) -> Option<u128> {
    v.out.attr(k).and_then(|x| x.parse::<u128>().ok())
}

pub fn c17(j: &mut Judge, v: &StepView) {
    if !v.out.accepted() {
        return;
    }
    let kind = v.req.kind();
    match v.out.attr("action") {
        Some(a) if action_ok(kind, a) => {}
        other => j.violate(
            Prop::C17,
            "action-attribute",
            kind,
            format!("action attribute {:?} on a {} request", other, kind),
        ),
    }
    if v.out.attr_count("action") > 1 {
        j.violate(Prop::C17, "action-attribute", kind, "several action attributes".into());
    }
    let (ask_ids, bid_ids) = v.req.named();
    // ids
    match v.req {
        Req::Match { ask_id, bid_id, .. } => {
            if v.out.attr("ask_id") != Some(ask_id.as_str()) || v.out.attr("bid_id") != Some(bid_id.as_str()) {
                j.violate(
                    Prop::C17,
                    "id-attribute",
                    kind,
                    format!("ids reported {:?}/{:?} for match of {}/{}", v.out.attr("ask_id"), v.out.attr("bid_id"), ask_id, bid_id),
                );
            }
        }
        Req::Modify(_) | Req::Unparsed => {}
        _ => {
            let id = ask_ids.first().or(bid_ids.first()).cloned().unwrap_or_default();
            if v.out.attr("id") != Some(id.as_str()) {
                j.violate(
                    Prop::C17,
                    "id-attribute",
                    kind,
                    format!("id reported {:?} for a request on {}", v.out.attr("id"), id),
                );
            }
        }
    }
    let sh = &mut j.tracker.shadow;
    let mut complaints: Vec<(&'static str, String)> = vec![];
    match v.req {
        Req::CreateAsk { id, price, size, .. } => {
            if attr_num(v, "size") != Some(*size) || v.out.attr("price") != Some(price.as_str()) {
                complaints.push(("create-attributes", format!("reported price {:?} size {:?} for ask {} @ {}", v.out.attr("price"), v.out.attr("size"), size, price)));
            }
            if let Some(a) = v.after.asks.get(id) {
                if attr_num(v, "size") != Some(a.size) || v.out.attr("price") != Some(a.price.as_str()) {
                    complaints.push(("create-attributes", "reported price/size differ from the recorded ask".into()));
                }
            }
            if let (Some(id), Some(sz)) = (v.out.attr("id"), attr_num(v, "size")) {
                sh.asks.insert(id.to_string(), ShadowOrder { remaining: sz, approved: false });
            }
        }
        Req::CreateBid { id, .. } => {
            if let Some(b) = v.after.bids.get(id) {
                if attr_num(v, "size") != Some(b.size) || v.out.attr("price") != Some(b.price.as_str()) {
                    complaints.push(("create-attributes", format!("reported price {:?} size {:?}, recorded {:?}", v.out.attr("price"), v.out.attr("size"), b)));
                }
                if let Some(qs) = v.out.attr("quote_size") {
                    if qs.parse::<u128>().ok() != Some(b.quote) {
                        complaints.push(("create-attributes", format!("reported quote_size {} recorded {}", qs, b.quote)));
                    }
                }
            }
            if let (Some(id), Some(sz)) = (v.out.attr("id"), attr_num(v, "size")) {
                sh.bids.insert(id.to_string(), ShadowOrder { remaining: sz, approved: false });
            }
        }
        Req::ApproveAsk { id, .. } => {
            if let Some(a) = v.after.asks.get(id) {
                if attr_num(v, "size") != Some(a.size) || v.out.attr("price") != Some(a.price.as_str()) {
                    complaints.push(("approve-attributes", format!("reported price {:?} size {:?}, recorded {:?}", v.out.attr("price"), v.out.attr("size"), a)));
                }
            }
            if let Some(id) = v.out.attr("id") {
                match sh.asks.get_mut(id) {
                    Some(o) => o.approved = true,
                    None => sh.broken = Some(format!("approve of unknown ask {}", id)),
                }
            }
        }
        Req::CancelAsk { .. } => {
            if let Some(id) = v.out.attr("id") {
                if sh.asks.remove(id).is_none() {
                    sh.broken = Some(format!("cancel of unknown ask {}", id));
                }
            }
        }
        Req::ExpireAsk { id } | Req::RejectAsk { id, .. } | Req::CancelBid { id } | Req::ExpireBid { id } | Req::RejectBid { id, .. } => {
            let is_ask = matches!(v.req, Req::ExpireAsk { .. } | Req::RejectAsk { .. });
            let returned: Option<u128> = if is_ask {
                v.before.asks.get(id).map(|a| a.size - v.after.asks.get(id).map(|x| x.size).unwrap_or(0))
            } else {
                v.before.bids.get(id).and_then(|b| {
                    let rb = b.rem_base()?;
                    let ra = v.after.bids.get(id).map(|x| x.rem_base().unwrap_or(0)).unwrap_or(0);
                    rb.checked_sub(ra)
                })
            };
            let still = if is_ask { v.after.asks.contains_key(id) } else { v.after.bids.contains_key(id) };
            let rs = attr_num(v, "reverse_size");
            if rs != returned {
                complaints.push(("reverse-size", format!("reverse_size {:?} but {:?} was returned", v.out.attr("reverse_size"), returned)));
            }
            // the size actually returned, by flow (ask: base units to the owner)
            if is_ask {
                if let (Some(a), Some(r)) = (v.before.asks.get(id), rs) {
                    let approver_same = matches!(&a.class, AskClass::Ready { approver, denom, .. } if approver == &a.owner && denom == &a.base);
                    if !approver_same {
                        let f = flows_of_moves(&v.out.moves);
                        let got = f.get(&(a.owner.clone(), a.base.clone())).copied().unwrap_or_else(Int256::zero);
                        if got != Int256::from(r) {
                            complaints.push(("reverse-size", format!("reverse_size {} but the owner received {} {}", r, got, a.base)));
                        }
                    }
                }
            }
            let oo = v.out.attr("order_open");
            if oo != Some(if still { "true" } else { "false" }) {
                complaints.push(("order-open-flag", format!("order_open {:?} but the order is {} the book", oo, if still { "still on" } else { "off" })));
            }
            if still {
                sh.partial_reversals += 1;
            }
            // shadow: driven by the attributes alone
            if let (Some(id), Some(r), Some(open)) = (v.out.attr("id"), rs, oo) {
                let side = if is_ask { &mut sh.asks } else { &mut sh.bids };
                match side.get_mut(id) {
                    None => sh.broken = Some(format!("reversal of unknown order {}", id)),
                    Some(o) => {
                        o.remaining = o.remaining.saturating_sub(r);
                        if open == "false" {
                            side.remove(id);
                        }
                    }
                }
            }
        }
        Req::Match { ask_id, bid_id, price, size } => {
            if attr_num(v, "size") != Some(*size) {
                complaints.push(("match-size", format!("reported size {:?}, executed {}", v.out.attr("size"), size)));
            }
            match (v.out.attr("price").map(parse), parse(price)) {
                (Some(Parsed::Num(a)), Parsed::Num(b)) if a.eq_num(&b) => {}
                (Some(Parsed::Unclear), _) | (_, Parsed::Unclear) => {}
                (got, _) => complaints.push(("match-price", format!("reported price {:?}, executed at {}", got, price))),
            }
            if v.exp.verdict == Verdict::Accept {
                if let Some(alt) = matching_alt(v) {
                    if attr_num(v, "ask_fee") != Some(alt.ask_fee) {
                        complaints.push(("match-ask-fee", format!("reported ask_fee {:?}, paid {}", v.out.attr("ask_fee"), alt.ask_fee)));
                    }
                    // several alternatives may share flows only when fee accounts coincide with
                    // the buyer; then the split is not observable and nothing is demanded
                    let ambiguous = v.exp.alts.iter().filter(|e| crate::model::prune(e.flows.clone()) == flows_of_moves(&v.out.moves) && e.bids == v.after.bids).count() > 1;
                    if !ambiguous && attr_num(v, "bid_fee") != Some(alt.bid_fee_paid) {
                        complaints.push(("match-bid-fee", format!("reported bid_fee {:?}, paid {}", v.out.attr("bid_fee"), alt.bid_fee_paid)));
                    }
                }
            }
            // model-free: when a fee account is no other party of the match, the reported fee is
            // what that account received
            if let (Some(a), Some(b), Some(cfg)) = (v.before.asks.get(ask_id), v.before.bids.get(bid_id), &v.before.cfg) {
                let seller = match &a.class {
                    AskClass::Ready { approver, .. } => approver.clone(),
                    _ => a.owner.clone(),
                };
                let afa = cfg.ask_fee.as_ref().map(|f| f.0.clone());
                let bfa = cfg.bid_fee.as_ref().map(|f| f.0.clone());
                let real = flows_of_moves(&v.out.moves);
                let receipt = |acc: &str| real.get(&(acc.to_string(), b.quote_denom.clone())).copied().unwrap_or_else(Int256::zero);
                let distinct_denoms = a.base != b.quote_denom && cfg.base != b.quote_denom;
                if let Some(acc) = &afa {
                    if distinct_denoms && acc != &b.owner && acc != &seller && Some(acc) != bfa.as_ref() {
                        if let Some(rep) = attr_num(v, "ask_fee") {
                            if receipt(acc) != Int256::from(rep) {
                                complaints.push(("match-ask-fee", format!("reported ask_fee {} but the ask-fee account received {}", rep, receipt(acc))));
                            }
                        } else {
                            complaints.push(("match-ask-fee", format!("ask_fee attribute {:?} is not an amount", v.out.attr("ask_fee"))));
                        }
                    }
                }
                if let Some(acc) = &bfa {
                    if distinct_denoms && acc != &b.owner && acc != &seller && Some(acc) != afa.as_ref() {
                        if let Some(rep) = attr_num(v, "bid_fee") {
                            if receipt(acc) != Int256::from(rep) {
                                complaints.push(("match-bid-fee", format!("reported bid_fee {} but the bid-fee account received {}", rep, receipt(acc))));
                            }
                        } else {
                            complaints.push(("match-bid-fee", format!("bid_fee attribute {:?} is not an amount", v.out.attr("bid_fee"))));
                        }
                    }
                }
            }
            let closed = !v.after.asks.contains_key(ask_id) || !v.after.bids.contains_key(bid_id);
            if closed {
                sh.closing_matches += 1;
            }
            if let (Some(a), Some(b), Some(s)) = (v.out.attr("ask_id"), v.out.attr("bid_id"), attr_num(v, "size")) {
                match sh.asks.get_mut(a) {
                    None => sh.broken = Some(format!("match of unknown ask {}", a)),
                    Some(o) => {
                        o.remaining = o.remaining.saturating_sub(s);
                        if o.remaining == 0 {
                            sh.asks.remove(a);
                        }
                    }
                }
                match sh.bids.get_mut(b) {
                    None => sh.broken = Some(format!("match of unknown bid {}", b)),
                    Some(o) => {
                        o.remaining = o.remaining.saturating_sub(s);
                        if o.remaining == 0 {
                            sh.bids.remove(b);
                        }
                    }
                }
            }
        }
        Req::Modify(_) | Req::Unparsed => {}
    }
    let nt = sh.partial_reversals >= 1 && sh.closing_matches >= 1;
    // compare the attribute-driven shadow with the real book
    let mut diff: Option<String> = sh.broken.clone();
    if diff.is_none() {
        let real_a: Vec<(String, u128, bool)> = v.after.asks.iter().map(|(k, a)| (k.clone(), a.size, matches!(a.class, AskClass::Ready { .. }))).collect();
        let sh_a: Vec<(String, u128, bool)> = sh.asks.iter().map(|(k, o)| (k.clone(), o.remaining, o.approved)).collect();
        let real_b: Vec<(String, u128)> = v.after.bids.iter().map(|(k, b)| (k.clone(), b.rem_base().unwrap_or(0))).collect();
        let sh_b: Vec<(String, u128)> = sh.bids.iter().map(|(k, o)| (k.clone(), o.remaining)).collect();
        if real_a != sh_a {
            diff = Some(format!("asks: book {:?} vs attribute-driven record {:?}", real_a, sh_a));
        } else if real_b != sh_b {
            diff = Some(format!("bids: book {:?} vs attribute-driven record {:?}", real_b, sh_b));
        }
    }
    if nt {
        j.nontrivial = true;
    }
    for (clause, d) in complaints {
        j.violate(Prop::C17, clause, kind, d);
    }
    if let Some(d) = diff {
        j.violate(Prop::C17, "shadow-book-diverged", kind, d);
        // resynchronise so that one divergence is reported once
        let sh = &mut j.tracker.shadow;
        sh.broken = None;
        sh.asks = v.after.asks.iter().map(|(k, a)| (k.clone(), ShadowOrder { remaining: a.size, approved: matches!(a.class, AskClass::Ready { .. }) })).collect();
        sh.bids = v.after.bids.iter().map(|(k, b)| (k.clone(), ShadowOrder { remaining: b.rem_base().unwrap_or(0), approved: false })).collect();
    }
}
