//! C14 migration, C15 bid format conversion.

use crate::chain::{Outcome, World, KEY_CONTRACT_INFO, KEY_VERSION_INFO};
use crate::exec::{Judge, Prop};
use crate::model::apply_change;
use crate::wire::{self, Bid, BidV2, CfgChange, Ev};
use serde_json::Value;

/// plain x.y.z (digits only, no leading zeros except "0")
pub fn parse_plain_version(s: &str) -> Option<(u64, u64, u64)> {
    let parts: Vec<&str> = s.split('.').collect();
    if parts.len() != 3 {
        return None;
    }
    let mut out = [0u64; 3];
    for (i, p) in parts.iter().enumerate() {
        if p.is_empty() || !p.bytes().all(|b| b.is_ascii_digit()) {
            return None;
        }
        if p.len() > 1 && p.starts_with('0') {
            return None;
        }
        out[i] = p.parse().ok()?;
    }
    Some((out[0], out[1], out[2]))
}

#[derive(Debug, PartialEq, Eq, Clone, Copy)]
pub enum VersionClass {
    /// unreadable or missing record, or not a plain x.y.z version
    Unreadable,
    TooOld,
    /// supported, bids may be stored with an event log (>= 0.16.2, < 0.19.1)
    ConversionWindow,
    /// supported, at or after the format change
    Current,
}

/// x.y.z followed by a pre-release (-...) and/or build (+...) tag: the release triple
fn parse_tagged_version(s: &str) -> Option<((u64, u64, u64), bool)> {
    let cut = s.find(|c| c == '-' || c == '+')?;
    let triple = parse_plain_version(&s[..cut])?;
    let tail = &s[cut..];
    if tail.len() < 2 || !tail[1..].bytes().all(|b| b.is_ascii_alphanumeric() || b == b'.' || b == b'-' || b == b'+') {
        return None;
    }
    Some((triple, tail.starts_with('-')))
}

pub fn classify(w: &World) -> VersionClass {
    let raw = match w.store.map.get(KEY_VERSION_INFO) {
        Some(r) => r,
        None => return VersionClass::Unreadable,
    };
    let v = match wire::decode_version(raw) {
        Ok(v) => v,
        Err(_) => return VersionClass::Unreadable,
    };
    match parse_plain_version(&v.version) {
        None => {
            // a pre-release of the minimum version (or anything tagged below it) is older than
            // the supported minimum by version precedence; tagged versions above it get no
            // verdict (see version_in_domain)
            if let Some((t, pre)) = parse_tagged_version(&v.version) {
                if t < (0, 16, 2) || (pre && t == (0, 16, 2)) {
                    return VersionClass::TooOld;
                }
            }
            VersionClass::Unreadable
        }
        Some(t) => {
            if t < (0, 16, 2) {
                VersionClass::TooOld
            } else if t < (0, 19, 1) {
                VersionClass::ConversionWindow
            } else {
                VersionClass::Current
            }
        }
    }
}

/// true iff the stored version string is one the statement speaks about: plain x.y.z, or
/// clearly malformed (not something semver gives a special meaning to)
pub fn version_in_domain(w: &World) -> bool {
    let raw = match w.store.map.get(KEY_VERSION_INFO) {
        Some(r) => r,
        None => return true,
    };
    match wire::decode_version(raw) {
        Err(_) => true,
        Ok(v) => {
            if parse_plain_version(&v.version).is_some() {
                return true;
            }
            // tagged versions: only those that are older than the minimum by precedence have a
            // verdict (refused); other tagged / partial versions are excluded (DESIGN 3.1)
            if let Some((t, pre)) = parse_tagged_version(&v.version) {
                return t < (0, 16, 2) || (pre && t == (0, 16, 2));
            }
            !(v.version.contains('-') || v.version.contains('+'))
                && !v.version.split('.').all(|p| !p.is_empty() && p.bytes().all(|b| b.is_ascii_digit()))
        }
    }
}

fn override_valid(ch: &CfgChange) -> Result<(), String> {
    use cosmwasm_std::testing::MockApi;
    use cosmwasm_std::Api;
    let api = MockApi::default();
    if let Some(a) = &ch.approvers {
        for x in a {
            if api.addr_validate(x).is_err() {
                return Err(format!("approver {:?} invalid", x));
            }
        }
    }
    for (r, a, side) in [
        (&ch.ask_fee_rate, &ch.ask_fee_account, "ask"),
        (&ch.bid_fee_rate, &ch.bid_fee_account, "bid"),
    ] {
        match (r, a) {
            (None, None) => {}
            (Some(_), None) | (None, Some(_)) => return Err(format!("{} fee pair half supplied", side)),
            (Some(r), Some(a)) => {
                if r.is_empty() && a.is_empty() {
                    continue;
                }
                match crate::num::parse(r) {
                    crate::num::Parsed::Num(_) => {}
                    crate::num::Parsed::Garbage => return Err(format!("{} fee rate unparsable", side)),
                    crate::num::Parsed::Unclear => return Err("unclear".into()),
                }
                if api.addr_validate(a).is_err() {
                    return Err(format!("{} fee account invalid", side));
                }
            }
        }
    }
    Ok(())
}

pub fn c14(j: &mut Judge, before: &World, after: &World, msg: &Value, out: &Outcome) {
    if !version_in_domain(before) {
        j.counters.out_of_zone += 1;
        return;
    }
    let class = classify(before);
    let ch = CfgChange::from_value(msg);
    let bb = wire::read_book(&before.store);
    let ab = wire::read_book(&after.store);
    let feat = format!("{:?}", class);
    if matches!(class, VersionClass::Unreadable | VersionClass::TooOld) {
        if out.accepted() {
            j.violate(
                Prop::C14,
                "unsupported-version-migrated",
                &feat,
                format!("migration from version record {:?} was carried out", bb.version),
            );
        }
        if before.store.map != after.store.map {
            j.violate(Prop::C14, "refused-migration-changed-state", &feat, "storage changed by a refused migration".into());
        }
        j.nontrivial = true; // gate cases are always of interest
        return;
    }
    if !out.accepted() {
        // a supported version: refusal is only demanded of nothing; invalid overrides may be
        // refused. A valid request from a supported version should go through.
        if override_valid(&ch).is_ok() && bb.undecodable.is_empty() && bb.cfg.is_some() {
            j.violate(
                Prop::C14,
                "supported-migration-refused",
                &feat,
                format!("migration from {:?} with {} refused: {:?} {}", bb.version, msg, out.kind, out.why),
            );
        }
        if before.store.map != after.store.map {
            j.violate(Prop::C14, "refused-migration-changed-state", &feat, "storage changed by a refused migration".into());
        }
        return;
    }
    // asks exactly as they were
    for (k, v) in &before.store.map {
        if k.starts_with(b"\x00\x03ask") && after.store.map.get(k) != Some(v) {
            j.violate(
                Prop::C14,
                "ask-changed",
                &feat,
                format!("ask entry {:?} changed by migration", String::from_utf8_lossy(k)),
            );
        }
    }
    for k in after.store.map.keys() {
        if !before.store.map.contains_key(k) && k.as_slice() != KEY_VERSION_INFO && k.as_slice() != KEY_CONTRACT_INFO {
            j.violate(
                Prop::C14,
                "entry-invented",
                &feat,
                format!("entry {:?} appeared during migration", String::from_utf8_lossy(k)),
            );
        }
    }
    for k in before.store.map.keys() {
        if !after.store.map.contains_key(k) {
            j.violate(
                Prop::C14,
                "entry-lost",
                &feat,
                format!("entry {:?} disappeared during migration", String::from_utf8_lossy(k)),
            );
        }
    }
    // configuration: exactly the requested overrides
    if let (Some(bc), Some(ac)) = (&bb.cfg, &ab.cfg) {
        let want = apply_change(bc, &ch, false);
        if &want != ac {
            j.violate(
                Prop::C14,
                "overrides-applied-exactly",
                &feat,
                format!("configuration after migration {:?}, expected {:?}", ac, want),
            );
        }
    } else {
        j.violate(Prop::C14, "overrides-applied-exactly", &feat, "configuration unreadable after migration".into());
    }
    // version stamped
    let (name, version) = crate::pkg::package();
    match &ab.version {
        Some(v) if v.version == version && v.definition == name => {}
        other => j.violate(
            Prop::C14,
            "version-stamp",
            &feat,
            format!("version record after migration {:?}, package is {} {}", other, name, version),
        ),
    }
    // idempotence: the same migration again changes nothing further
    let mut again = after.clone();
    let out2 = again.migrate(&serde_json::to_vec(msg).unwrap());
    j.counters.probes += 1;
    if !out2.accepted() {
        j.violate(
            Prop::C14,
            "second-migration-refused",
            &feat,
            format!("the same migration applied again is refused: {:?} {}", out2.kind, out2.why),
        );
    } else if again.store.map != after.store.map {
        j.violate(Prop::C14, "not-idempotent", &feat, "a second identical migration changed storage".into());
    }
    let has_override = msg.as_object().map(|o| !o.is_empty()).unwrap_or(false);
    let non_empty = !bb.asks.is_empty() || !bb.bids.is_empty() || !bb.legacy_bids.is_empty();
    if has_override && non_empty {
        j.nontrivial = true;
    }
    if let Some(v) = &bb.version {
        if let Some(t) = parse_plain_version(&v.version) {
            for th in [(0u64, 15u64, 0u64), (0, 16, 2), (0, 19, 1)] {
                if t.0 == th.0 && t.1 == th.1 && (t.2 as i64 - th.2 as i64).abs() <= 1 {
                    j.nontrivial = true;
                    j.label("version-at-threshold");
                }
            }
        }
    }
}

pub fn sums(b: &BidV2) -> (u128, u128, u128) {
    let (mut sb, mut sq, mut sf) = (0u128, 0u128, 0u128);
    for e in &b.events {
        match e {
            Ev::Fill { base, fee, quote, .. } => {
                sb += base;
                sq += quote;
                sf += fee.unwrap_or(0);
            }
            Ev::Refund { fee, quote } => {
                sq += quote;
                sf += fee.unwrap_or(0);
            }
            Ev::Reject { base, fee, quote } => {
                sb += base;
                sq += quote;
                sf += fee.unwrap_or(0);
            }
        }
    }
    (sb, sq, sf)
}

pub fn c15(j: &mut Judge, before: &World, after: &World, _msg: &Value, out: &Outcome) {
    if !version_in_domain(before) {
        j.counters.out_of_zone += 1;
        return;
    }
    if !out.accepted() {
        return;
    }
    let class = classify(before);
    let feat = format!("{:?}", class);
    let bb = wire::read_book(&before.store);
    let ab = wire::read_book(&after.store);
    // key set of the bid side unchanged
    let keys = |w: &World| -> Vec<Vec<u8>> { w.store.map.keys().filter(|k| k.starts_with(b"\x00\x03bid")).cloned().collect() };
    if keys(before) != keys(after) {
        j.violate(Prop::C15, "bid-lost-or-invented", &feat, format!("bid keys before {:?} after {:?}", keys(before).len(), keys(after).len()));
    }
    // bids already in the current format are untouched
    for (k, v) in &before.store.map {
        if k.starts_with(b"\x00\x03bid") && !wire::is_v2_bid(v) && after.store.map.get(k) != Some(v) {
            j.violate(
                Prop::C15,
                "native-bid-rewritten",
                &feat,
                format!("bid {:?} already in the current format was rewritten", String::from_utf8_lossy(k)),
            );
        }
    }
    match class {
        VersionClass::ConversionWindow => {
            for (id, old) in &bb.legacy_bids {
                let (sb, sq, sf) = sums(old);
                let want = Bid {
                    id: old.id.clone(),
                    owner: old.owner.clone(),
                    base_denom: old.base_denom.clone(),
                    size: old.size,
                    acc_base: sb,
                    acc_quote: sq,
                    acc_fee: sf,
                    fee: old.fee.clone(),
                    price: old.price.clone(),
                    quote_denom: old.quote_denom.clone(),
                    quote: old.quote,
                };
                match ab.bids.get(id) {
                    Some(got) if got == &want => {}
                    other => j.violate(
                        Prop::C15,
                        "conversion-preserves-remaining",
                        &feat,
                        format!("legacy bid {} converted to {:?}, expected {:?}", id, other, want),
                    ),
                }
                let kinds: std::collections::BTreeSet<u8> = old
                    .events
                    .iter()
                    .map(|e| match e {
                        Ev::Fill { .. } => 0u8,
                        Ev::Refund { .. } => 1,
                        Ev::Reject { .. } => 2,
                    })
                    .collect();
                if kinds.len() >= 2 {
                    j.label("converted-log-with-two-event-kinds");
                }
                j.label("bid-converted");
            }
            if !ab.legacy_bids.is_empty() {
                j.violate(Prop::C15, "legacy-bid-left-behind", &feat, format!("{} bids still in the legacy format", ab.legacy_bids.len()));
            }
        }
        VersionClass::Current => {
            // nothing is rewritten
            for (k, v) in &before.store.map {
                if k.starts_with(b"\x00\x03bid") && after.store.map.get(k) != Some(v) {
                    j.violate(
                        Prop::C15,
                        "rewritten-outside-window",
                        &feat,
                        format!("bid {:?} rewritten although the source version is at or after the format change", String::from_utf8_lossy(k)),
                    );
                }
            }
            if !bb.legacy_bids.is_empty() {
                j.label("legacy-bids-outside-window");
                j.nontrivial = true;
            }
        }
        _ => {}
    }
}
