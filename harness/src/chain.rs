//! The world in which the real contract runs "as on chain": own storage with
//! snapshots, a per-denomination / per-address table querier, an exact ledger,
//! in-order dispatch of the returned messages, whole-call rollback on Err, on a
//! trap (panic) and on a failing message.
//!
//! Nothing in here knows what the contract is supposed to do; it only knows the
//! chain assumptions A1-A4 of DESIGN.md section 3.5.

use cosmwasm_std::testing::{mock_env, MockApi, MOCK_CONTRACT_ADDR};
use cosmwasm_std::{
    from_slice, to_binary, Addr, BankMsg, Binary, Coin, ContractResult, CosmosMsg, Deps, DepsMut,
    Empty, Env, Int256, MessageInfo, Order, Querier, QuerierResult, QuerierWrapper, QueryRequest,
    Record, ReplyOn, Response, Storage, SystemError, SystemResult, Uint128,
};
use prost::Message;
use provwasm_std::shim::Any;
use provwasm_std::types::provenance::attribute::v1::{
    Attribute, QueryAttributesRequest, QueryAttributesResponse,
};
use provwasm_std::types::provenance::marker::v1::{
    MarkerAccount, MsgTransferRequest, QueryMarkerRequest, QueryMarkerResponse,
};
use std::collections::BTreeMap;
use std::panic::{catch_unwind, AssertUnwindSafe};

pub const CONTRACT: &str = MOCK_CONTRACT_ADDR;

// ---------------------------------------------------------------- storage

#[derive(Clone, Default, PartialEq, Eq, Debug)]
pub struct Store {
    pub map: BTreeMap<Vec<u8>, Vec<u8>>,
    /// number of mutating calls (set/remove) ever made; used by the query observer
    pub writes: u64,
}

impl Storage for Store {
    fn get(&self, key: &[u8]) -> Option<Vec<u8>> {
        self.map.get(key).cloned()
    }
    fn range<'a>(
        &'a self,
        start: Option<&[u8]>,
        end: Option<&[u8]>,
        order: Order,
    ) -> Box<dyn Iterator<Item = Record> + 'a> {
        use std::ops::Bound;
        let lo = match start {
            Some(s) => Bound::Included(s.to_vec()),
            None => Bound::Unbounded,
        };
        let hi = match end {
            Some(e) => Bound::Excluded(e.to_vec()),
            None => Bound::Unbounded,
        };
        if let (Some(s), Some(e)) = (start, end) {
            if s > e {
                return Box::new(std::iter::empty());
            }
        }
        let it = self.map.range((lo, hi)).map(|(k, v)| (k.clone(), v.clone()));
        match order {
            Order::Ascending => Box::new(it),
            Order::Descending => Box::new(it.rev()),
        }
    }
    fn set(&mut self, key: &[u8], value: &[u8]) {
        self.writes += 1;
        self.map.insert(key.to_vec(), value.to_vec());
    }
    fn remove(&mut self, key: &[u8]) {
        self.writes += 1;
        self.map.remove(key);
    }
}

pub fn ask_key(id: &str) -> Vec<u8> {
    let mut k = b"\x00\x03ask".to_vec();
    k.extend_from_slice(id.as_bytes());
    k
}
pub fn bid_key(id: &str) -> Vec<u8> {
    let mut k = b"\x00\x03bid".to_vec();
    k.extend_from_slice(id.as_bytes());
    k
}
pub const KEY_CONTRACT_INFO: &[u8] = b"contract_info";
pub const KEY_VERSION_INFO: &[u8] = b"version_info";

// ---------------------------------------------------------------- querier

#[derive(Clone, Copy, PartialEq, Eq, Debug, PartialOrd, Ord)]
pub enum MarkerKind {
    /// a marker of type RESTRICTED (2)
    Restricted,
    /// a marker of type COIN (1)
    Unrestricted,
    /// no marker account for this denomination
    NoMarker,
}

#[derive(Clone, Default, Debug)]
pub struct Tables {
    pub markers: BTreeMap<String, MarkerKind>,
    /// address -> attribute names held
    pub attrs: BTreeMap<String, Vec<String>>,
    /// denominations whose marker account lists required attributes (a marker-level
    /// feature that does not change the marker's type)
    pub marker_required_attrs: std::collections::BTreeSet<String>,
    /// markers answered with a status other than active (4 = cancelled, 2 = finalized): the
    /// status does not change a marker's type
    pub marker_status: std::collections::BTreeMap<String, i32>,
}

impl Tables {
    pub fn kind(&self, denom: &str) -> MarkerKind {
        *self.markers.get(denom).unwrap_or(&MarkerKind::NoMarker)
    }
    pub fn restricted(&self, denom: &str) -> bool {
        self.kind(denom) == MarkerKind::Restricted
    }
    pub fn holds(&self, addr: &str, attr: &str) -> bool {
        self.attrs
            .get(addr)
            .map(|v| v.iter().any(|a| a == attr))
            .unwrap_or(false)
    }
}

pub struct TableQuerier<'a> {
    pub t: &'a Tables,
}

impl<'a> Querier for TableQuerier<'a> {
    fn raw_query(&self, bin_request: &[u8]) -> QuerierResult {
        let request: QueryRequest<Empty> = match from_slice(bin_request) {
            Ok(r) => r,
            Err(e) => {
                return SystemResult::Err(SystemError::InvalidRequest {
                    error: format!("{}", e),
                    request: Binary::from(bin_request),
                })
            }
        };
        match request {
            QueryRequest::Stargate { path, data } => match path.as_str() {
                "/provenance.marker.v1.Query/Marker" => {
                    let req = match QueryMarkerRequest::decode(data.as_slice()) {
                        Ok(r) => r,
                        Err(e) => {
                            return SystemResult::Err(SystemError::InvalidRequest {
                                error: format!("{}", e),
                                request: data,
                            })
                        }
                    };
                    let marker_type = match self.t.kind(&req.id) {
                        MarkerKind::Restricted => 2,
                        MarkerKind::Unrestricted => 1,
                        MarkerKind::NoMarker => {
                            // the chain answers "marker not found" with a query error
                            return SystemResult::Ok(ContractResult::Err(format!(
                                "invalid denom or address: {}",
                                req.id
                            )));
                        }
                    };
                    let account = MarkerAccount {
                        base_account: None,
                        manager: String::new(),
                        access_control: vec![],
                        status: self.t.marker_status.get(&req.id).copied().unwrap_or(3),
                        denom: req.id.clone(),
                        supply: "1000000000".into(),
                        marker_type,
                        supply_fixed: false,
                        allow_governance_control: false,
                        allow_forced_transfer: false,
                        required_attributes: if self.t.marker_required_attrs.contains(&req.id) {
                            vec!["marker.holder.kyc".to_string()]
                        } else {
                            vec![]
                        },
                    };
                    let resp = QueryMarkerResponse {
                        marker: Some(Any {
                            type_url: "/provenance.marker.v1.MarkerAccount".into(),
                            value: account.encode_to_vec(),
                        }),
                    };
                    SystemResult::Ok(ContractResult::Ok(to_binary(&resp).unwrap()))
                }
                "/provenance.attribute.v1.Query/Attributes" => {
                    let req = match QueryAttributesRequest::decode(data.as_slice()) {
                        Ok(r) => r,
                        Err(e) => {
                            return SystemResult::Err(SystemError::InvalidRequest {
                                error: format!("{}", e),
                                request: data,
                            })
                        }
                    };
                    let attributes: Vec<Attribute> = self
                        .t
                        .attrs
                        .get(&req.account)
                        .map(|names| {
                            names
                                .iter()
                                .map(|n| Attribute {
                                    name: n.clone(),
                                    value: b"v".to_vec(),
                                    attribute_type: 4,
                                    address: req.account.clone(),
                                })
                                .collect()
                        })
                        .unwrap_or_default();
                    let resp = QueryAttributesResponse {
                        account: req.account.clone(),
                        attributes,
                        pagination: None,
                    };
                    SystemResult::Ok(ContractResult::Ok(to_binary(&resp).unwrap()))
                }
                other => SystemResult::Err(SystemError::UnsupportedRequest {
                    kind: format!("stargate path {}", other),
                }),
            },
            other => SystemResult::Err(SystemError::UnsupportedRequest {
                kind: format!("{:?}", other),
            }),
        }
    }
}

// ---------------------------------------------------------------- messages as seen by observers

#[derive(Clone, Debug, PartialEq, Eq)]
pub enum Msg {
    Bank {
        to: String,
        coins: Vec<(String, u128)>,
    },
    Marker {
        admin: String,
        from: String,
        to: String,
        /// None when the amount field is absent
        denom: Option<String>,
        /// raw amount string; None when absent
        amount: Option<String>,
    },
    Other(String),
}

#[derive(Clone, Debug, PartialEq, Eq)]
pub struct Sub {
    pub msg: Msg,
    /// true iff the sub-message asks for no reply and sets no gas limit
    pub plain: bool,
}

pub fn decode_messages(resp: &Response) -> Vec<Sub> {
    resp.messages
        .iter()
        .map(|sm| {
            let plain = sm.reply_on == ReplyOn::Never && sm.gas_limit.is_none();
            let msg = match &sm.msg {
                CosmosMsg::Bank(BankMsg::Send { to_address, amount }) => Msg::Bank {
                    to: to_address.clone(),
                    coins: amount
                        .iter()
                        .map(|c| (c.denom.clone(), c.amount.u128()))
                        .collect(),
                },
                CosmosMsg::Stargate { type_url, value }
                    if type_url == "/provenance.marker.v1.MsgTransferRequest" =>
                {
                    match MsgTransferRequest::decode(value.as_slice()) {
                        Ok(m) => Msg::Marker {
                            admin: m.administrator,
                            from: m.from_address,
                            to: m.to_address,
                            denom: m.amount.as_ref().map(|c| c.denom.clone()),
                            amount: m.amount.as_ref().map(|c| c.amount.clone()),
                        },
                        Err(e) => Msg::Other(format!("undecodable MsgTransferRequest: {}", e)),
                    }
                }
                other => Msg::Other(format!("{:?}", other)),
            };
            Sub { msg, plain }
        })
        .collect()
}

/// One movement of funds, after decoding; the unit the ledger and the flow
/// oracles work with.
#[derive(Clone, Debug, PartialEq, Eq)]
pub struct Move {
    pub from: String,
    pub to: String,
    pub denom: String,
    pub amount: u128,
    pub by_marker_transfer: bool,
}

// ---------------------------------------------------------------- outcome

#[derive(Clone, Debug, PartialEq, Eq)]
pub enum Kind {
    Accepted,
    /// the entry point returned Err, or the message did not parse
    Refused,
    /// the entry point trapped
    Panicked,
    /// the entry point returned Ok but one of its messages failed; rolled back
    DispatchFailed,
}

#[derive(Clone, Debug)]
pub struct Outcome {
    pub kind: Kind,
    /// error text / panic text / dispatch failure reason
    pub why: String,
    /// the Response returned by the entry point (present for Accepted and DispatchFailed)
    pub subs: Vec<Sub>,
    pub attrs: Vec<(String, String)>,
    pub n_events: usize,
    pub has_data: bool,
    /// all fund movements of the call, attached funds first, then messages in order
    /// (only meaningful when Accepted)
    pub moves: Vec<Move>,
}

impl Outcome {
    pub fn accepted(&self) -> bool {
        self.kind == Kind::Accepted
    }
    pub fn attr(&self, k: &str) -> Option<&str> {
        self.attrs
            .iter()
            .find(|(a, _)| a == k)
            .map(|(_, v)| v.as_str())
    }
    pub fn attr_count(&self, k: &str) -> usize {
        self.attrs.iter().filter(|(a, _)| a == k).count()
    }
}

// ---------------------------------------------------------------- world

pub type Ledger = BTreeMap<(String, String), Int256>;

#[derive(Clone)]
pub struct World {
    pub store: Store,
    pub tables: Tables,
    pub ledger: Ledger,
    pub env: Env,
}

fn i256(x: u128) -> Int256 {
    Int256::from(x)
}

thread_local! {
    static IN_CONTRACT: std::cell::Cell<bool> = std::cell::Cell::new(false);
}

/// Traps inside the contract are silent (they are counted as refusals); a panic in the
/// harness itself is printed.
pub fn silence_panics() {
    std::panic::set_hook(Box::new(|info| {
        if !IN_CONTRACT.with(|c| c.get()) {
            eprintln!("harness panic: {}", info);
        }
    }));
}

fn guarded<T>(f: impl FnOnce() -> T) -> std::thread::Result<T> {
    IN_CONTRACT.with(|c| c.set(true));
    let r = catch_unwind(AssertUnwindSafe(f));
    IN_CONTRACT.with(|c| c.set(false));
    r
}

fn panic_text(p: Box<dyn std::any::Any + Send>) -> String {
    if let Some(s) = p.downcast_ref::<&str>() {
        s.to_string()
    } else if let Some(s) = p.downcast_ref::<String>() {
        s.clone()
    } else {
        "<non-string panic>".to_string()
    }
}

impl World {
    pub fn new(tables: Tables) -> World {
        World {
            store: Store::default(),
            tables,
            ledger: Ledger::new(),
            env: mock_env(),
        }
    }

    pub fn balance(&self, acct: &str, denom: &str) -> Int256 {
        self.ledger
            .get(&(acct.to_string(), denom.to_string()))
            .copied()
            .unwrap_or_else(Int256::zero)
    }

    pub fn contract_balances(&self) -> BTreeMap<String, Int256> {
        let mut m = BTreeMap::new();
        for ((a, d), v) in &self.ledger {
            if a == CONTRACT && !v.is_zero() {
                m.insert(d.clone(), *v);
            }
        }
        m
    }

    fn credit(&mut self, acct: &str, denom: &str, amt: Int256) {
        let e = self
            .ledger
            .entry((acct.to_string(), denom.to_string()))
            .or_insert_with(Int256::zero);
        *e += amt;
    }

    fn apply_move(&mut self, m: &Move) {
        self.credit(&m.from, &m.denom, -i256(m.amount));
        self.credit(&m.to, &m.denom, i256(m.amount));
    }

    /// Dispatch the decoded messages in order against the ledger. Err(reason) on the
    /// first failing message (assumptions A1, A2, A4).
    fn dispatch(&mut self, subs: &[Sub], moves: &mut Vec<Move>) -> Result<(), String> {
        for (i, s) in subs.iter().enumerate() {
            match &s.msg {
                Msg::Bank { to, coins } => {
                    if coins.is_empty() {
                        return Err(format!("msg {}: bank send with no coins", i));
                    }
                    for (denom, amount) in coins {
                        if *amount == 0 {
                            return Err(format!("msg {}: bank send of a zero coin of {}", i, denom));
                        }
                        if self.balance(CONTRACT, denom) < i256(*amount) {
                            return Err(format!(
                                "msg {}: insufficient contract funds: bank send of {}{} but contract holds {}",
                                i,
                                amount,
                                denom,
                                self.balance(CONTRACT, denom)
                            ));
                        }
                        let m = Move {
                            from: CONTRACT.to_string(),
                            to: to.clone(),
                            denom: denom.clone(),
                            amount: *amount,
                            by_marker_transfer: false,
                        };
                        self.apply_move(&m);
                        moves.push(m);
                    }
                }
                Msg::Marker {
                    admin,
                    from,
                    to,
                    denom,
                    amount,
                } => {
                    if admin != CONTRACT {
                        return Err(format!(
                            "msg {}: marker transfer with administrator {}",
                            i, admin
                        ));
                    }
                    let (denom, amount) = match (denom, amount) {
                        (Some(d), Some(a)) => (d, a),
                        _ => return Err(format!("msg {}: marker transfer without amount", i)),
                    };
                    let amount: u128 = match amount.parse() {
                        Ok(a) => a,
                        Err(_) => {
                            return Err(format!(
                                "msg {}: marker transfer amount {:?} unparsable",
                                i, amount
                            ))
                        }
                    };
                    if amount == 0 {
                        return Err(format!("msg {}: marker transfer of zero {}", i, denom));
                    }
                    if !self.tables.restricted(denom) {
                        return Err(format!(
                            "msg {}: marker transfer of {} which is not a restricted marker",
                            i, denom
                        ));
                    }
                    if from == CONTRACT && self.balance(CONTRACT, denom) < i256(amount) {
                        return Err(format!(
                            "msg {}: insufficient contract funds: marker transfer of {}{} but contract holds {}",
                            i,
                            amount,
                            denom,
                            self.balance(CONTRACT, denom)
                        ));
                    }
                    let m = Move {
                        from: from.clone(),
                        to: to.clone(),
                        denom: denom.clone(),
                        amount,
                        by_marker_transfer: true,
                    };
                    self.apply_move(&m);
                    moves.push(m);
                }
                Msg::Other(what) => {
                    return Err(format!("msg {}: unsupported message {}", i, what));
                }
            }
        }
        Ok(())
    }

    fn finish(
        &mut self,
        snapshot: (Store, Ledger),
        mut moves: Vec<Move>,
        result: std::thread::Result<Result<Response, String>>,
    ) -> Outcome {
        match result {
            Err(p) => {
                self.store = snapshot.0;
                self.ledger = snapshot.1;
                Outcome {
                    kind: Kind::Panicked,
                    why: panic_text(p),
                    subs: vec![],
                    attrs: vec![],
                    n_events: 0,
                    has_data: false,
                    moves: vec![],
                }
            }
            Ok(Err(e)) => {
                self.store = snapshot.0;
                self.ledger = snapshot.1;
                Outcome {
                    kind: Kind::Refused,
                    why: e,
                    subs: vec![],
                    attrs: vec![],
                    n_events: 0,
                    has_data: false,
                    moves: vec![],
                }
            }
            Ok(Ok(resp)) => {
                let subs = decode_messages(&resp);
                let attrs: Vec<(String, String)> = resp
                    .attributes
                    .iter()
                    .map(|a| (a.key.clone(), a.value.clone()))
                    .collect();
                let n_events = resp.events.len();
                let has_data = resp.data.is_some();
                match self.dispatch(&subs, &mut moves) {
                    Ok(()) => Outcome {
                        kind: Kind::Accepted,
                        why: String::new(),
                        subs,
                        attrs,
                        n_events,
                        has_data,
                        moves,
                    },
                    Err(why) => {
                        self.store = snapshot.0;
                        self.ledger = snapshot.1;
                        Outcome {
                            kind: Kind::DispatchFailed,
                            why,
                            subs,
                            attrs,
                            n_events,
                            has_data,
                            moves: vec![],
                        }
                    }
                }
            }
        }
    }

    /// Run `execute` with the literal JSON message, as the chain would.
    pub fn execute(&mut self, sender: &str, funds: &[(String, u128)], msg_json: &[u8]) -> Outcome {
        let snapshot = (self.store.clone(), self.ledger.clone());
        // the bank module moves attached funds before the contract runs
        let mut moves = vec![];
        for (d, a) in funds {
            let m = Move {
                from: sender.to_string(),
                to: CONTRACT.to_string(),
                denom: d.clone(),
                amount: *a,
                by_marker_transfer: false,
            };
            self.apply_move(&m);
            moves.push(m);
        }
        let info = MessageInfo {
            sender: Addr::unchecked(sender),
            funds: funds
                .iter()
                .map(|(d, a)| Coin {
                    denom: d.clone(),
                    amount: Uint128::new(*a),
                })
                .collect(),
        };
        let env = self.env.clone();
        let api = MockApi::default();
        let tables = self.tables.clone();
        let store = &mut self.store;
        let result = guarded(|| {
            let msg: ats_smart_contract::msg::ExecuteMsg =
                from_slice(msg_json).map_err(|e| format!("parse: {}", e))?;
            let q = TableQuerier { t: &tables };
            let deps = DepsMut {
                storage: store,
                api: &api,
                querier: QuerierWrapper::new(&q),
            };
            ats_smart_contract::contract::execute(deps, env, info, msg)
                .map_err(|e| format!("{:?}", e))
        });
        self.finish(snapshot, moves, result)
    }

    pub fn instantiate(&mut self, sender: &str, msg_json: &[u8]) -> Outcome {
        let snapshot = (self.store.clone(), self.ledger.clone());
        let info = MessageInfo {
            sender: Addr::unchecked(sender),
            funds: vec![],
        };
        let env = self.env.clone();
        let api = MockApi::default();
        let tables = self.tables.clone();
        let store = &mut self.store;
        let result = guarded(|| {
            let msg: ats_smart_contract::msg::InstantiateMsg =
                from_slice(msg_json).map_err(|e| format!("parse: {}", e))?;
            let q = TableQuerier { t: &tables };
            let deps = DepsMut {
                storage: store,
                api: &api,
                querier: QuerierWrapper::new(&q),
            };
            ats_smart_contract::contract::instantiate(deps, env, info, msg)
                .map_err(|e| format!("{:?}", e))
        });
        self.finish(snapshot, vec![], result)
    }

    pub fn migrate(&mut self, msg_json: &[u8]) -> Outcome {
        let snapshot = (self.store.clone(), self.ledger.clone());
        let env = self.env.clone();
        let api = MockApi::default();
        let tables = self.tables.clone();
        let store = &mut self.store;
        let result = guarded(|| {
            let msg: ats_smart_contract::msg::MigrateMsg =
                from_slice(msg_json).map_err(|e| format!("parse: {}", e))?;
            let q = TableQuerier { t: &tables };
            let deps = DepsMut {
                storage: store,
                api: &api,
                querier: QuerierWrapper::new(&q),
            };
            ats_smart_contract::contract::migrate(deps, env, msg).map_err(|e| format!("{:?}", e))
        });
        self.finish(snapshot, vec![], result)
    }

    /// Run a query. Returns Ok(json bytes) / Err(text); a trap is Err("panic: ..").
    /// The storage handed to the query is the live one (`Deps` is read-only by type,
    /// but the observer still compares bytes and the write counter).
    pub fn query(&self, msg_json: &[u8]) -> Result<Vec<u8>, String> {
        let env = self.env.clone();
        let api = MockApi::default();
        let tables = self.tables.clone();
        let store = &self.store;
        let r = guarded(|| {
            let msg: ats_smart_contract::msg::QueryMsg =
                from_slice(msg_json).map_err(|e| format!("parse: {}", e))?;
            let q = TableQuerier { t: &tables };
            let deps = Deps {
                storage: store,
                api: &api,
                querier: QuerierWrapper::new(&q),
            };
            ats_smart_contract::contract::query(deps, env, msg)
                .map(|b| b.0)
                .map_err(|e| format!("{:?}", e))
        });
        match r {
            Ok(x) => x,
            Err(p) => Err(format!("panic: {}", panic_text(p))),
        }
    }

    /// Give the contract `amount` of `denom` out of thin air (used only when seeding
    /// legacy orders, together with the matching storage entry).
    pub fn seed_credit(&mut self, from: &str, denom: &str, amount: u128) {
        let m = Move {
            from: from.to_string(),
            to: CONTRACT.to_string(),
            denom: denom.to_string(),
            amount,
            by_marker_transfer: false,
        };
        self.apply_move(&m);
    }
}
