fn main() {}
