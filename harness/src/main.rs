use atsv::driver::{self, Known, Stats};
use atsv::exec::Prop;
use atsv::gen;
use atsv::replay;
use serde_json::json;
use std::time::{Duration, Instant};

fn arg_val(args: &[String], name: &str) -> Option<String> {
    args.iter().position(|a| a == name).and_then(|i| args.get(i + 1).cloned())
}

fn main() {
    atsv::chain::silence_panics();
    let args: Vec<String> = std::env::args().collect();
    if args.len() < 3 {
        eprintln!("usage: atsv check <ID> [--tier quick|thorough] [--cases N] | atsv replay <ID> <file>... [-v]");
        std::process::exit(2);
    }
    let prop = match Prop::parse(&args[2]) {
        Some(p) => p,
        None => {
            eprintln!("unknown property {}", args[2]);
            std::process::exit(2);
        }
    };
    let known = Known::load();
    match args[1].as_str() {
        "replay" => {
            let verbose = args.iter().any(|a| a == "-v");
            let mut bad = 0;
            for path in args[3..].iter().filter(|a| *a != "-v") {
                let case = match replay::load(path) {
                    Ok(c) => c,
                    Err(e) => {
                        eprintln!("{}", e);
                        std::process::exit(2);
                    }
                };
                let r = match replay::run_case(prop, &case, 1000) {
                    Ok(r) => r,
                    Err(e) => {
                        eprintln!("{}", e);
                        std::process::exit(2);
                    }
                };
                if verbose {
                    for (i, s) in r.trace.iter().enumerate() {
                        println!("step {}: {}", i, s.to_json());
                    }
                    println!("counters: {:?}", r.judge.counters);
                    println!("labels: {:?} nontrivial={}", r.judge.labels, r.judge.nontrivial);
                }
                let mut unknown = 0;
                for v in &r.judge.violations {
                    if known.is_known(v) {
                        println!("KNOWN-FINDING: property={} {}", prop.id(), v.signature);
                    } else {
                        println!("  [{}] step {}: {}", v.signature, v.step, v.detail);
                        unknown += 1;
                    }
                }
                if unknown > 0 {
                    println!("VIOLATION property={} replay={}", prop.id(), path);
                    bad += 1;
                }
            }
            std::process::exit(if bad > 0 { 1 } else { 0 });
        }
        "check" => {
            let tier = arg_val(&args, "--tier").or_else(|| std::env::var("VERIF_TIER").ok()).unwrap_or_else(|| "quick".into());
            let thorough = tier == "thorough";
            let seed: u64 = std::env::var("VERIF_SEED").ok().and_then(|s| s.parse::<i128>().ok()).map(|x| x as u64).unwrap_or(20261001);
            let budget: f64 = std::env::var("VERIF_BUDGET").ok().and_then(|s| s.parse().ok()).unwrap_or(1.0);
            let start = Instant::now();
            for f in known.findings.iter().filter(|f| f.0 == prop.id()) {
                println!("KNOWN-FINDING: property={} {} -- {}", prop.id(), f.1, f.2);
            }
            // calibration of the exact arithmetic against rust_decimal: harness trouble, not a violation
            let calib = match atsv::calibrate::run(seed ^ 0xca11b8a7e, if thorough { 400_000 } else { 40_000 }) {
                Ok(c) => c,
                Err(e) => {
                    eprintln!("calibration failed (harness broken, not a property violation): {}", e);
                    std::process::exit(2);
                }
            };
            let p = gen::profile(prop, thorough);
            let mut stats = Stats::default();
            let mut failure = if std::env::var("ATSV_NO_REPLAYS").is_ok() { None } else { driver::run_replays(prop, &known, &mut stats) };
            let replays = stats.evaluations;
            let mut grid = 0;
            if failure.is_none() && prop == Prop::C13 {
                failure = driver::run_c13_grid(&p, &known, &mut stats);
                grid = stats.evaluations - replays;
            }
            let default_cases: u64 = match (prop, thorough) {
                (Prop::C13, false) => 60_000,
                (Prop::C13, true) => 3_000_000,
                (Prop::C03, false) => 4_000,
                (Prop::C16, false) => 16_000,
                (Prop::C06, false) | (Prop::C12, false) => 8_000,
                (Prop::C05, false) => 16_000,
                (_, false) => 24_000,
                (Prop::C03, true) | (Prop::C16, true) => 150_000,
                (Prop::C06, true) | (Prop::C12, true) | (Prop::C05, true) => 400_000,
                (_, true) => 2_000_000,
            };
            let cases = arg_val(&args, "--cases").and_then(|s| s.parse().ok()).unwrap_or(((default_cases as f64) * budget) as u64);
            let workers = std::thread::available_parallelism().map(|n| n.get()).unwrap_or(4).min(16);
            let cap = if thorough { Duration::from_secs_f64(300.0 * budget) } else { Duration::from_secs(600) };
            let mut timed_out = false;
            if failure.is_none() {
                let res = driver::search(prop, &p, seed, cases, workers, Some(start + cap), &known);
                stats.merge(res.stats);
                failure = res.failure;
                timed_out = res.timed_out;
            }
            let wall = start.elapsed();
            let extra = json!({
                "committed_replays_run": replays,
                "grid_points": grid,
                "generated_cases_requested": cases,
                "workers": workers,
                "calibration_products_checked": calib.0,
                "calibration_pro_rata_checked": calib.1,
                "time_cap_reached_so_fewer_cases_ran": timed_out,
                "profile": format!("{:?}", p),
            });
            driver::write_evidence(prop, &tier, seed, &stats, wall, failure.as_ref().map(|f| f.violations.len()).unwrap_or(0), extra, &known);
            println!(
                "{} {}: {} cases ({} non-trivial, {} distinct), {} requests, {} probes, {:.1}s",
                prop.id(),
                tier,
                stats.evaluations,
                stats.nontrivial,
                stats.distinct.len(),
                stats.counters.requests,
                stats.counters.probes,
                wall.as_secs_f64()
            );
            match failure {
                None if stats.harness_panics > 0 => {
                    eprintln!("{} generated cases made the harness itself panic: harness trouble, no verdict", stats.harness_panics);
                    std::process::exit(2)
                }
                None => std::process::exit(0),
                Some(f) => {
                    for v in &f.violations {
                        println!("  [{}] step {}: {}", v.signature, v.step, v.detail);
                    }
                    println!("VIOLATION property={} replay={}", prop.id(), f.replay_path);
                    std::process::exit(1);
                }
            }
        }
        "tape" => {
            // atsv tape <ID> <file> [thorough]: run one libFuzzer input and print what happened
            let data = std::fs::read(&args[3]).expect("tape file");
            let tape = gen::tape_from_bytes(&data);
            let p = gen::profile(prop, args.iter().any(|a| a == "thorough"));
            let r = driver::eval_case(prop, &p, &tape);
            for (i, s) in r.trace.iter().enumerate() {
                println!("step {}: {}", i, s.to_json());
            }
            println!("counters: {:?}", r.judge.counters);
            for v in &r.judge.violations {
                println!("  [{}] step {}: {}", v.signature, v.step, v.detail);
            }
            std::process::exit(if r.judge.violations.is_empty() { 0 } else { 1 });
        }
        "corpus" => {
            // atsv corpus <ID> <dir> <n>: write n starting inputs for the libFuzzer target (random
            // tapes of mixed lengths; a pure function of VERIF_SEED)
            let dir = args.get(3).cloned().unwrap_or_else(|| "corpus".into());
            let n: usize = args.get(4).and_then(|s| s.parse().ok()).unwrap_or(64);
            let seed: u64 = std::env::var("VERIF_SEED").ok().and_then(|s| s.parse::<i128>().ok()).map(|x| x as u64).unwrap_or(20261001);
            let _ = std::fs::create_dir_all(&dir);
            let mut x = seed ^ ((prop as u64) << 48) | 1;
            let mut next = || {
                x ^= x << 13;
                x ^= x >> 7;
                x ^= x << 17;
                x
            };
            for i in 0..n {
                let ops = [0usize, 2, 5, 10, 20, 40, 80, 120][i % 8];
                let words = gen::WORLD_WORDS + ops * gen::OP_WORDS;
                let mut bytes = Vec::with_capacity(words * 4);
                for _ in 0..words {
                    bytes.extend_from_slice(&(next() as u32).to_le_bytes());
                }
                let _ = std::fs::write(format!("{}/seed-{:03}", dir, i), bytes);
            }
            std::process::exit(0);
        }
        other => {
            eprintln!("unknown command {}", other);
            std::process::exit(2);
        }
    }
}
