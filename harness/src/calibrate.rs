//! Calibration self-test (DESIGN 3.2 / 3.3): the exact arithmetic of `num.rs` and the
//! decidable-zone predicates are compared with `rust_decimal` on generated operands.
//! A disagreement means the harness is broken (exit 2), never a property violation.

use crate::num::{self, prorata, Dec};
use rust_decimal::prelude::*;
use rust_decimal::{Decimal, RoundingStrategy};

struct Lcg(u64);
impl Lcg {
    fn next(&mut self) -> u64 {
        self.0 ^= self.0 << 13;
        self.0 ^= self.0 >> 7;
        self.0 ^= self.0 << 17;
        self.0
    }
    fn below(&mut self, n: u64) -> u64 {
        self.next() % n.max(1)
    }
}

pub fn run(seed: u64, n: usize) -> Result<(usize, usize), String> {
    let mut r = Lcg(seed | 1);
    let mut products = 0;
    let mut ratios = 0;
    for _ in 0..n {
        // a price-like decimal and an integer amount
        let digits = 1 + r.below(17) as u32;
        let mant = r.below(10u64.pow(digits.min(18)));
        let scale = r.below(19) as u32;
        let amt_digits = 1 + r.below(18) as u32;
        let amt = r.below(10u64.pow(amt_digits.min(18))) as u128;
        let a = Dec {
            neg: false,
            mant: num::u(mant as u128),
            scale,
        };
        let exact = a.mul_u128(amt);
        if exact.representable() {
            let da = Decimal::from_i128_with_scale(mant as i128, scale);
            let db = Decimal::from(amt);
            let got = da.checked_mul(db).ok_or_else(|| format!("rust_decimal overflows on {} x {} predicted exact", da, db))?;
            let want = Decimal::from_str(&exact.to_plain_string()).map_err(|e| format!("{}", e))?;
            if got != want {
                return Err(format!("product {} x {}: rust_decimal {} vs exact {}", da, db, got, want));
            }
            let rounded = got.round_dp_with_strategy(0, RoundingStrategy::MidpointAwayFromZero).to_u128();
            if rounded != exact.round_half_away() {
                return Err(format!("rounding of {}: rust_decimal {:?} vs exact {:?}", got, rounded, exact.round_half_away()));
            }
            if (got.fract() == Decimal::ZERO) != exact.is_integer() {
                return Err(format!("integrality of {} disagrees", got));
            }
            products += 1;
        }
        // pro-rata: fee * (num / den), tie-seeking half of the time
        let dd = 1 + r.below(15) as u32;
        let den = 1 + r.below(10u64.pow(dd)) as u128;
        let numr = r.below(den as u64 + 1) as u128;
        let fd = 1 + r.below(12) as u32;
        let mut fee = r.below(10u64.pow(fd)) as u128;
        if r.below(2) == 0 && numr > 0 {
            // make fee*num/den land on k + 1/2 when possible: fee = den*(2k+1)/(2*num) if integral
            let k = r.below(50) as u128;
            let f = den * (2 * k + 1);
            if f % (2 * numr) == 0 {
                fee = f / (2 * numr);
            }
        }
        if fee == 0 {
            continue;
        }
        let pr = prorata(fee, numr, den);
        let ratio = Decimal::from_u128(numr).unwrap().checked_div(Decimal::from_u128(den).unwrap()).unwrap();
        if let Some(x) = Decimal::from_u128(fee).unwrap().checked_mul(ratio) {
            if let Some(got) = x.round_dp_with_strategy(0, RoundingStrategy::MidpointAwayFromZero).to_u128() {
                if !pr.allows(got) {
                    return Err(format!(
                        "pro-rata {} x {}/{}: rust_decimal expression gives {}, accepted set is [{}, {}] (exact rounding {}, tie {})",
                        fee, numr, den, got, pr.lo, pr.hi, pr.rounded, pr.tie
                    ));
                }
                ratios += 1;
            }
        }
    }
    Ok((products, ratios))
}

#[cfg(test)]
mod scale_rule {
    use super::*;

    /// Is "the product kept the price's scale" equivalent to "the product was exact at that
    /// scale" for rust_decimal's checked_mul with an integer factor?
    #[test]
    fn scale_preserved_iff_exact_at_scale() {
        let mut r = Lcg(0x1234_5678_9abc_def1);
        let mut kept = 0;
        let mut reduced = 0;
        for _ in 0..3_000_000 {
            let digits = 1 + r.below(28) as u32;
            let mut mant: u128 = 0;
            for _ in 0..digits {
                mant = mant * 10 + r.below(10) as u128;
            }
            if mant == 0 || mant >= (1u128 << 96) {
                continue;
            }
            let scale = r.below(19) as u32;
            let ad = 1 + r.below(24) as u32;
            let mut amt: u128 = 0;
            for _ in 0..ad {
                amt = amt * 10 + r.below(10) as u128;
            }
            if amt == 0 || amt >= (1u128 << 96) {
                continue;
            }
            let price = Decimal::from_i128_with_scale(mant as i128, scale);
            let exact_mant = num::u(mant) * num::u(amt);
            let fits = exact_mant < num::two96();
            match price.checked_mul(Decimal::from(amt)) {
                None => assert!(!fits, "overflow reported for a product that fits: {} x {}", price, amt),
                Some(p) => {
                    if p.scale() == price.scale() {
                        assert!(fits, "scale kept but mantissa does not fit: {} x {} = {}", price, amt, p);
                        assert_eq!(p.mantissa() as u128, mant * amt, "{} x {}", price, amt);
                        kept += 1;
                    } else {
                        assert!(!fits, "scale reduced although the exact product fits: {} x {} = {}", price, amt, p);
                        reduced += 1;
                    }
                }
            }
        }
        eprintln!("kept {} reduced {}", kept, reduced);
        assert!(kept > 100_000 && reduced > 100_000);
    }
}
