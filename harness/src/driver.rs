//! Drivers: committed replays, proptest-generated cases on all cores, evidence.

use crate::exec::{Counters, Prop, Runner, Violation};
use crate::gen::{self, Profile, Tape, OP_WORDS, WORLD_WORDS};
use crate::genx;
use crate::replay;
use proptest::prelude::*;
use proptest::test_runner::{Config, RngAlgorithm, TestCaseError, TestError, TestRng, TestRunner};
use serde_json::{json, Value};
use std::cell::RefCell;
use std::collections::hash_map::DefaultHasher;
use std::collections::{BTreeMap, HashSet};
use std::hash::{Hash, Hasher};
use std::time::{Duration, Instant};

pub fn verif_root() -> String {
    std::env::var("ATSV_ROOT").unwrap_or_else(|_| "/verif".to_string())
}

// ---------------------------------------------------------------- known findings

#[derive(Clone, Debug, Default)]
pub struct Known {
    /// (property, signature, description)
    pub findings: Vec<(String, String, String)>,
}

impl Known {
    pub fn load() -> Known {
        let path = format!("{}/known_findings.json", verif_root());
        let mut k = Known::default();
        if let Ok(text) = std::fs::read_to_string(&path) {
            if let Ok(v) = serde_json::from_str::<Value>(&text) {
                if let Some(a) = v.get("findings").and_then(|x| x.as_array()) {
                    for f in a {
                        let g = |n: &str| f.get(n).and_then(|x| x.as_str()).unwrap_or("").to_string();
                        k.findings.push((g("property"), g("signature"), g("description")));
                    }
                }
            }
        }
        k
    }
    pub fn is_known(&self, v: &Violation) -> bool {
        self.findings
            .iter()
            .any(|(p, s, _)| p == v.prop.id() && s == &v.signature)
    }
}

// ---------------------------------------------------------------- stats

#[derive(Default)]
pub struct Stats {
    pub evaluations: u64,
    pub nontrivial: u64,
    pub distinct: HashSet<u64>,
    pub labels: BTreeMap<String, u64>,
    pub counters: Counters,
    pub steps: u64,
    pub samples: Vec<Value>,
    pub largest: Option<(usize, Value)>,
    pub known_hits: BTreeMap<String, u64>,
    pub history_len_hist: BTreeMap<usize, u64>,
    /// cases in which the harness itself panicked (harness trouble, never a violation)
    pub harness_panics: u64,
}

fn add_counters(a: &mut Counters, b: &Counters) {
    a.requests += b.requests;
    a.accepted += b.accepted;
    a.refused += b.refused;
    a.panicked += b.panicked;
    a.dispatch_failed += b.dispatch_failed;
    a.out_of_zone += b.out_of_zone;
    a.probes += b.probes;
    a.known_excluded += b.known_excluded;
}

impl Stats {
    pub fn absorb_case(&mut self, r: &Runner) {
        self.evaluations += 1;
        self.steps += r.trace.len() as u64;
        add_counters(&mut self.counters, &r.judge.counters);
        for l in &r.judge.labels {
            *self.labels.entry(l.to_string()).or_insert(0) += 1;
        }
        *self.history_len_hist.entry((r.trace.len() / 10) * 10).or_insert(0) += 1;
        if r.judge.nontrivial {
            self.nontrivial += 1;
            let mut h = DefaultHasher::new();
            let text = serde_json::to_string(&r.trace.iter().map(|s| s.to_json()).collect::<Vec<_>>()).unwrap();
            r.tables_json.to_string().hash(&mut h);
            text.hash(&mut h);
            let fresh = self.distinct.insert(h.finish());
            if fresh && self.samples.len() < 2 && r.trace.len() <= 14 {
                self.samples.push(gen::summarize(r));
            }
            if self.largest.as_ref().map(|(n, _)| r.trace.len() > *n).unwrap_or(true) && r.trace.len() <= 60 {
                self.largest = Some((r.trace.len(), gen::summarize(r)));
            }
        }
    }
    pub fn merge(&mut self, o: Stats) {
        self.evaluations += o.evaluations;
        self.harness_panics += o.harness_panics;
        self.nontrivial += o.nontrivial;
        self.steps += o.steps;
        self.distinct.extend(o.distinct);
        for (k, v) in o.labels {
            *self.labels.entry(k).or_insert(0) += v;
        }
        for (k, v) in o.history_len_hist {
            *self.history_len_hist.entry(k).or_insert(0) += v;
        }
        for (k, v) in o.known_hits {
            *self.known_hits.entry(k).or_insert(0) += v;
        }
        add_counters(&mut self.counters, &o.counters);
        for s in o.samples {
            if self.samples.len() < 3 {
                self.samples.push(s);
            }
        }
        match (&self.largest, o.largest) {
            (Some((n, _)), Some((m, v))) if m > *n => self.largest = Some((m, v)),
            (None, Some(x)) => self.largest = Some(x),
            _ => {}
        }
    }
}

// ---------------------------------------------------------------- one case

pub fn eval_case(prop: Prop, p: &Profile, tape: &Tape) -> Runner {
    match prop {
        Prop::C13 => {
            let msg = genx::instantiate_msg(&tape.world, p);
            let spec = gen::build_world(&tape.world, p);
            genx::run_instantiate(&msg, spec.tables, &tape.world, p)
        }
        Prop::C14 | Prop::C15 => genx::run_migration(prop, p, tape),
        // fees and solvency are also judged on books that went through the bid format
        // conversion (a tenth of the cases): legacy re-encoding, migrate, continuation
        Prop::C09 | Prop::C01 if tape.world[28] % 10 == 0 => genx::run_migration(prop, p, tape),
        _ => gen::run_history(prop, p, tape),
    }
}

pub struct Failure {
    pub violations: Vec<Violation>,
    pub replay_path: String,
}

fn unknown<'a>(r: &'a Runner, known: &Known) -> Vec<&'a Violation> {
    r.judge.violations.iter().filter(|v| !known.is_known(v)).collect()
}

/// Second shrinking pass, on the concrete steps: drop every step whose removal keeps a
/// violation with the same structural signature (later steps that lose their precondition
/// are simply refused). Returns the minimised case and the runner that executed it.
pub fn minimise_steps(prop: Prop, r: &Runner, signature: &str, known: &Known) -> Option<(Value, Runner)> {
    let mut case = r.case_json("");
    case["probe_seed"] = json!(r.judge.probe_seed);
    let still_fails = |c: &Value| -> Option<Runner> {
        let rr = replay::run_case(prop, c, 1000).ok()?;
        if rr.judge.violations.iter().any(|v| v.signature == signature && !known.is_known(v)) {
            Some(rr)
        } else {
            None
        }
    };
    let mut best = still_fails(&case)?;
    let mut budget = 400;
    let mut i = case["steps"].as_array().map(|a| a.len()).unwrap_or(0);
    while i > 1 && budget > 0 {
        i -= 1;
        budget -= 1;
        let mut trial = case.clone();
        if let Some(a) = trial["steps"].as_array_mut() {
            if i >= a.len() {
                continue;
            }
            a.remove(i);
        }
        if let Some(rr) = still_fails(&trial) {
            case = trial;
            best = rr;
        }
    }
    Some((case, best))
}

pub fn write_violation(prop: Prop, r: &Runner, v: &[Violation], origin: &str) -> String {
    let dir = format!("{}/out/violations", verif_root());
    let _ = std::fs::create_dir_all(&dir);
    let mut h = DefaultHasher::new();
    v.first().map(|x| x.signature.clone()).unwrap_or_default().hash(&mut h);
    serde_json::to_string(&r.trace.iter().map(|s| s.to_json()).collect::<Vec<_>>()).unwrap().hash(&mut h);
    let path = format!("{}/{}-{:016x}.json", dir, prop.id(), h.finish());
    let mut case = r.case_json(&format!(
        "{} violation found by {}: {}",
        prop.id(),
        origin,
        v.iter().map(|x| format!("[{}] step {}: {}", x.signature, x.step, x.detail)).collect::<Vec<_>>().join(" || ")
    ));
    case["probe_seed"] = json!(r.judge.probe_seed);
    case["property"] = json!(prop.id());
    let _ = std::fs::write(&path, serde_json::to_string_pretty(&case).unwrap());
    path
}

// ---------------------------------------------------------------- generated search

fn seed_bytes(seed: u64, worker: u64, prop: Prop) -> [u8; 32] {
    let mut out = [0u8; 32];
    let mut x = seed ^ 0x9e3779b97f4a7c15u64.wrapping_mul(worker + 1) ^ ((prop as u64) << 56);
    for chunk in out.chunks_mut(8) {
        x ^= x >> 30;
        x = x.wrapping_mul(0xbf58476d1ce4e5b9);
        x ^= x >> 27;
        x = x.wrapping_mul(0x94d049bb133111eb);
        x ^= x >> 31;
        chunk.copy_from_slice(&x.to_le_bytes());
        x = x.wrapping_add(0x9e3779b97f4a7c15);
    }
    out
}

pub struct SearchResult {
    pub stats: Stats,
    pub failure: Option<Failure>,
    pub timed_out: bool,
}

pub fn search(prop: Prop, p: &Profile, seed: u64, cases: u64, workers: usize, deadline: Option<Instant>, known: &Known) -> SearchResult {
    let per = (cases + workers as u64 - 1) / workers as u64;
    let results: Vec<SearchResult> = std::thread::scope(|s| {
        let handles: Vec<_> = (0..workers)
            .map(|wk| {
                let p = p.clone();
                let known = known.clone();
                s.spawn(move || worker(prop, &p, seed, wk as u64, per, deadline, &known))
            })
            .collect();
        handles.into_iter().map(|h| h.join().expect("worker thread")).collect()
    });
    let mut total = SearchResult {
        stats: Stats::default(),
        failure: None,
        timed_out: false,
    };
    for r in results {
        total.stats.merge(r.stats);
        total.timed_out |= r.timed_out;
        if total.failure.is_none() {
            total.failure = r.failure;
        }
    }
    total
}

fn worker(prop: Prop, p: &Profile, seed: u64, wk: u64, cases: u64, deadline: Option<Instant>, known: &Known) -> SearchResult {
    crate::chain::silence_panics();
    let config = Config {
        cases: cases as u32,
        failure_persistence: None,
        max_shrink_iters: 30000,
        max_global_rejects: 1,
        ..Config::default()
    };
    let rng = TestRng::from_seed(RngAlgorithm::ChaCha, &seed_bytes(seed, wk, prop));
    let mut runner = TestRunner::new_with_rng(config, rng);
    let max_ops = if matches!(prop, Prop::C13) { 1 } else { p.max_ops + 1 };
    let strat = (
        proptest::array::uniform32(any::<u32>()),
        proptest::collection::vec(proptest::array::uniform12(any::<u32>()), 0..max_ops),
    );
    let stats = RefCell::new(Stats::default());
    // once a failure has been seen the closure is re-run by the shrinker: stop counting,
    // and only accept candidates that still show the same structural signature
    let target: RefCell<Option<String>> = RefCell::new(None);
    let timed_out = RefCell::new(false);
    let result = runner.run(&strat, |(world, ops): ([u32; WORLD_WORDS], Vec<[u32; OP_WORDS]>)| {
        if target.borrow().is_none() {
            if let Some(d) = deadline {
                if Instant::now() > d {
                    *timed_out.borrow_mut() = true;
                    return Ok(());
                }
            }
        }
        let tape = Tape { world, ops };
        let r = match std::panic::catch_unwind(std::panic::AssertUnwindSafe(|| eval_case(prop, p, &tape))) {
            Ok(r) => r,
            Err(_) => {
                // the harness fell over (already printed by the panic hook): not a verdict
                stats.borrow_mut().harness_panics += 1;
                return Ok(());
            }
        };
        let unk = unknown(&r, known);
        let shrinking = target.borrow().is_some();
        if !shrinking {
            let mut st = stats.borrow_mut();
            st.absorb_case(&r);
            for v in r.judge.violations.iter().filter(|v| known.is_known(v)) {
                *st.known_hits.entry(v.signature.clone()).or_insert(0) += 1;
            }
        }
        if unk.is_empty() {
            return Ok(());
        }
        let mut t = target.borrow_mut();
        match &*t {
            None => {
                *t = Some(unk[0].signature.clone());
                Err(TestCaseError::fail(unk[0].signature.clone()))
            }
            Some(sig) => {
                if unk.iter().any(|v| &v.signature == sig) {
                    Err(TestCaseError::fail(sig.clone()))
                } else {
                    Ok(())
                }
            }
        }
    });
    let failure = match result {
        Ok(()) => None,
        Err(TestError::Fail(_, (world, ops))) => {
            let tape = Tape { world, ops };
            let r = eval_case(prop, p, &tape);
            let v: Vec<Violation> = unknown(&r, known).into_iter().cloned().collect();
            // shrink once more on the concrete steps (only for plain histories: the C13-C15 case
            // shapes carry checks outside the step list)
            let minimised = match (prop, v.first()) {
                (Prop::C13 | Prop::C14 | Prop::C15, _) | (_, None) => None,
                (_, Some(first)) => minimise_steps(prop, &r, &first.signature, known),
            };
            let (path, v) = match minimised {
                Some((_, rr)) => {
                    let vv: Vec<Violation> = unknown(&rr, known).into_iter().cloned().collect();
                    (write_violation(prop, &rr, &vv, "generated search (shrunk twice: tape, then concrete steps)"), vv)
                }
                None => (write_violation(prop, &r, &v, "generated search (shrunk)"), v),
            };
            Some(Failure {
                violations: v,
                replay_path: path,
            })
        }
        Err(TestError::Abort(why)) => {
            eprintln!("proptest aborted: {}", why);
            None
        }
    };
    let t = *timed_out.borrow();
    SearchResult {
        stats: stats.into_inner(),
        failure,
        timed_out: t,
    }
}

// ---------------------------------------------------------------- committed replays

pub fn run_replays(prop: Prop, known: &Known, stats: &mut Stats) -> Option<Failure> {
    let dir = format!("{}/replays", verif_root());
    let mut files: Vec<String> = std::fs::read_dir(&dir)
        .map(|d| {
            d.filter_map(|e| e.ok())
                .map(|e| e.path().to_string_lossy().to_string())
                .filter(|p| p.ends_with(".json"))
                .collect()
        })
        .unwrap_or_default();
    files.sort();
    for f in files {
        let case = match replay::load(&f) {
            Ok(c) => c,
            Err(e) => {
                eprintln!("replay {} unreadable: {}", f, e);
                continue;
            }
        };
        // a replay may be restricted to some properties
        if let Some(only) = case.get("only").and_then(|x| x.as_array()) {
            if !only.iter().any(|x| x.as_str() == Some(prop.id())) {
                continue;
            }
        }
        let r = match replay::run_case(prop, &case, 1000) {
            Ok(r) => r,
            Err(e) => {
                eprintln!("replay {} failed to run: {}", f, e);
                continue;
            }
        };
        stats.absorb_case(&r);
        let v: Vec<Violation> = unknown(&r, known).into_iter().cloned().collect();
        if !v.is_empty() {
            for x in &v {
                eprintln!("  [{}] step {}: {}", x.signature, x.step, x.detail);
            }
            return Some(Failure {
                violations: v,
                replay_path: f,
            });
        }
    }
    None
}

// ---------------------------------------------------------------- C13 grid

pub fn run_c13_grid(p: &Profile, known: &Known, stats: &mut Stats) -> Option<Failure> {
    let msgs = genx::c13_grid(p);
    let w = [0x5555_5555u32; WORLD_WORDS];
    let spec = gen::build_world(&w, p);
    for m in msgs {
        let r = genx::run_instantiate(&m, spec.tables.clone(), &w, p);
        stats.absorb_case(&r);
        let v: Vec<Violation> = unknown(&r, known).into_iter().cloned().collect();
        if !v.is_empty() {
            let path = write_violation(Prop::C13, &r, &v, "exhaustive grid");
            return Some(Failure {
                violations: v,
                replay_path: path,
            });
        }
    }
    stats.labels.insert("grid-precision-x-increment-and-fee-pairs-exhaustive".into(), 1);
    None
}

// ---------------------------------------------------------------- evidence

pub fn rule_of(prop: Prop) -> &'static str {
    match prop {
        Prop::C01 => "cases = (world block, list of op blocks) interpreted into real instantiate/execute calls; non-trivial = some order saw >= 3 accepted fund-moving calls of which >= 1 was a partial (fill or reject); distinct = distinct hash of the concrete request list",
        Prop::C02 => "cases as C01 in the match-heavy profile; non-trivial = contains an accepted in-zone match that is price-improved, fee-bearing, convertible or has coinciding parties; distinct by concrete request list",
        Prop::C03 => "cases as C01 plus, at sampled states, a boundary sweep of ExecuteMatch (prices x sizes x senders x id forms) on a copy of the world; non-trivial = a sweep ran on a book that had already seen a partial fill or partial reject; distinct by concrete request list",
        Prop::C04 => "cases as C01 in the reversal-heavy profile; non-trivial = an order left the book through cancel/expire/reject after >= 1 earlier fill or partial reject; distinct by concrete request list",
        Prop::C05 => "cases as C01 with wrong-sender faults, plus at sampled states the full request-kind x address matrix on copies of the world; non-trivial = a matrix taken after an accepted role-list change or with a multi-role account; distinct by concrete request list",
        Prop::C06 => "cases as C01 (many non-lot fills, partial rejects, seeded legacy-id orders); after every accepted step every open order is cancelled by its owner and expired by an executor on copies; non-trivial = an exit attempted on an order with a non-lot remainder, a partial reject, a legacy id, or after a fee-account change; distinct by concrete request list",
        Prop::C07 => "cases as C01 in the admission profile (80% creates, 60% carrying exactly one fault); non-trivial = a create request failing exactly one stated condition, or an accepted one on a rounding / restricted-marker boundary; distinct by concrete request list",
        Prop::C08 => "cases as C01 in worlds with convertible denominations; non-trivial = an approved ask that then saw a partial fill or partial reject (and the cancel probe on it); distinct by concrete request list",
        Prop::C09 => "cases as C01 with fee-bearing bids and tie-seeking rates; non-trivial = a fee-bearing bid with >= 3 fund-moving calls, or a call whose exact fee value is a half-unit tie or rounds to 0; distinct by concrete request list",
        Prop::C10 => "cases as C01 with all 3^n marker assignments equiprobable; every message of every response judged against the marker table; non-trivial = a response moving denominations of >= 2 different marker kinds; distinct by concrete request list",
        Prop::C11 => "cases as C01 with several orders per side and ids shared across sides; complete book and raw storage diffed around every call; non-trivial = a call accepted while >= 2 other orders were open on the same side; distinct by concrete request list",
        Prop::C12 => "cases as C01 with many ModifyContract requests, plus all 256 subsets of the optional fields on copies at sampled states; non-trivial = a modify touching a fee/attribute/approver field against a non-empty book, or a full subset sweep on a non-empty book; distinct by concrete request list",
        Prop::C13 => "cases = one instantiate message (coherent message with 0..2 field faults) plus the exhaustive precision x increment and 16x16 fee-pair grids; accepted configurations are then probed with admissible orders; non-trivial = within one fault of coherent, a grid point, or accepted; distinct by concrete message",
        Prop::C14 => "cases = real history, version record rewritten (thresholds +-1, malformed, missing), optional legacy re-encoding, migrate with generated overrides, migrate again; non-trivial = supported version over a non-empty book with >= 1 override, a version within one patch of a threshold, or an unsupported version; distinct by concrete step list",
        Prop::C15 => "cases = real history, some open bids re-encoded in the legacy event-log format (log from the real history or an arbitrary split with the same sums), version inside/outside the window, migrate, then the same continuation on the migrated world and on its never-converted twin; non-trivial = a converted bid with >= 2 event kinds touched by an accepted continuation call, or legacy bids outside the window; distinct by concrete step list",
        Prop::C16 => "cases as C01; after every step all four query kinds over named, open, closed, never-used, legacy-form, upper-case, braced and malformed ids, with storage compared around them and cancel probes for reported amounts; non-trivial = a query for a closed id or for an order modified >= 2 times; distinct by concrete request list",
        Prop::C17 => "cases as C01; attributes of every accepted call judged against book and flows, and an attribute-driven shadow book compared with the real one; non-trivial = the shadow processed >= 1 partial reversal and >= 1 order-closing match; distinct by concrete request list",
    }
}

#[allow(clippy::too_many_arguments)]
pub fn write_evidence(prop: Prop, tier: &str, seed: u64, stats: &Stats, wall: Duration, violations: usize, extra: Value, known: &Known) {
    let mut samples: Vec<Value> = stats.samples.clone();
    if let Some((_, v)) = &stats.largest {
        samples.push(v.clone());
    }
    if samples.is_empty() {
        samples.push(json!({"note": "no non-trivial case short enough to print"}));
    }
    let c = &stats.counters;
    let ev = json!({
        "property_id": prop.id(),
        "tier": tier,
        "seed": seed,
        "level": "exploration",
        "coverage": {
            "evaluations": stats.evaluations,
            "distinct_nontrivial": stats.distinct.len(),
            "nontrivial_cases": stats.nontrivial,
            "rule": rule_of(prop),
            "samples": samples,
            "exhaustive": false,
            "requests_executed": c.requests,
            "accepted": c.accepted,
            "refused": c.refused,
            "panicked_counted_as_refusals": c.panicked,
            "rolled_back_by_failed_message": c.dispatch_failed,
            "probe_calls_on_copies": c.probes,
            "requests_outside_decidable_zone": c.out_of_zone,
            "steps_total": stats.steps,
            "label_distribution_cases": stats.labels,
            "history_length_histogram": stats.history_len_hist.iter().map(|(k, v)| (format!("{}-{}", k, k + 9), *v)).collect::<BTreeMap<_, _>>(),
            "known_findings_excluded": stats.known_hits,
            "known_findings_listed": known.findings.iter().filter(|f| f.0 == prop.id()).count(),
            "extra": extra,
        },
        "assumptions": [
            "A1 a bank send of a non-positive coin or beyond the sender's balance fails",
            "A2 a marker transfer whose administrator is not the contract, whose amount is not positive or whose denomination is not a restricted marker fails",
            "A3 an Err, a trap and a failing message each roll the whole call back",
            "A4 a bank send of a restricted denomination by the contract succeeds at dispatch (judged by C10 only)",
            "cosmwasm MockApi is the address validator; the marker / attribute tables are functions of denomination / address",
            "requests outside the 96-bit / 28-digit decidable zone get no accept/refuse verdict"
        ],
        "wall_s": wall.as_secs_f64(),
        "violations": violations,
    });
    let dir = format!("{}/evidence", verif_root());
    let _ = std::fs::create_dir_all(&dir);
    let _ = std::fs::write(format!("{}/{}.json", dir, prop.id()), serde_json::to_string_pretty(&ev).unwrap());
}
