//! Exact decimal arithmetic for the reference model. Values are
//! `(-1)^neg * mant / 10^scale` with a 512-bit mantissa, so every product the
//! statements talk about (price x 10^precision, price x size, rate x total,
//! fee x remaining) is computed without rounding. Nothing in here calls
//! `rust_decimal`.

use cosmwasm_std::Uint512;
use std::cmp::Ordering;

pub fn u(x: u128) -> Uint512 {
    Uint512::from(x)
}

pub fn pow10(n: u32) -> Uint512 {
    let mut r = Uint512::one();
    let ten = Uint512::from(10u32);
    for _ in 0..n {
        r = r * ten;
    }
    r
}

pub fn to_u128(x: Uint512) -> Option<u128> {
    let max = Uint512::from(u128::MAX);
    if x > max {
        None
    } else {
        // decimal string round trip; only used on small values, off the hot path
        x.to_string().parse::<u128>().ok()
    }
}

/// 2^96, the size of a rust_decimal mantissa
pub fn two96() -> Uint512 {
    Uint512::from(1u128 << 96)
}

#[derive(Clone, Debug, PartialEq, Eq)]
pub struct Dec {
    pub neg: bool,
    pub mant: Uint512,
    pub scale: u32,
}

/// How a price / rate string is classified.
#[derive(Clone, Debug, PartialEq, Eq)]
pub enum Parsed {
    /// inside the grammar `[+-]?digits[.digits]` | `[+-]?.digits` | `[+-]?digits.`,
    /// at most 28 fractional digits and a mantissa below 2^96: unambiguous meaning
    Num(Dec),
    /// certainly not a number (empty, stray characters, two dots, no digit)
    Garbage,
    /// lexically a number or near-number whose treatment is a library matter
    /// (underscores, more than 28 decimals, mantissa of 2^96 or more): no verdict
    Unclear,
}

pub fn parse(s: &str) -> Parsed {
    if s.is_empty() {
        return Parsed::Garbage;
    }
    if !s
        .bytes()
        .all(|b| b.is_ascii_digit() || b == b'.' || b == b'+' || b == b'-' || b == b'_')
    {
        return Parsed::Garbage;
    }
    if s.contains('_') {
        return Parsed::Unclear;
    }
    let (neg, body) = match s.as_bytes()[0] {
        b'-' => (true, &s[1..]),
        b'+' => (false, &s[1..]),
        _ => (false, s),
    };
    if body.contains('+') || body.contains('-') {
        // a sign anywhere but in front
        return Parsed::Unclear;
    }
    let dots = body.bytes().filter(|b| *b == b'.').count();
    if dots > 1 {
        return Parsed::Garbage;
    }
    let (ip, fp) = match body.find('.') {
        Some(i) => (&body[..i], &body[i + 1..]),
        None => (body, ""),
    };
    if ip.is_empty() && fp.is_empty() {
        // "", ".", "-", "+"
        return Parsed::Garbage;
    }
    // more than 28 decimals: unambiguous only when the surplus digits are zeros (the value is
    // then the same number; the library drops them)
    let fp = if fp.len() > 28 {
        if fp[28..].bytes().all(|b| b == b'0') && fp.len() <= 40 {
            &fp[..28]
        } else {
            return Parsed::Unclear;
        }
    } else {
        fp
    };
    // trailing decimal zeros do not change the number; drop them so that a long spelling of
    // a short number stays inside the 96-bit zone
    let fp = fp.trim_end_matches('0');
    let digits: String = format!("{}{}", ip, fp);
    let trimmed = digits.trim_start_matches('0');
    if trimmed.len() > 29 {
        return Parsed::Unclear;
    }
    let mut mant = Uint512::zero();
    let ten = Uint512::from(10u32);
    for b in trimmed.bytes() {
        mant = mant * ten + Uint512::from((b - b'0') as u32);
    }
    if mant >= two96() {
        return Parsed::Unclear;
    }
    Parsed::Num(Dec {
        neg: neg && !mant.is_zero(),
        mant,
        scale: fp.len() as u32,
    })
}

impl Dec {
    pub fn zero() -> Dec {
        Dec {
            neg: false,
            mant: Uint512::zero(),
            scale: 0,
        }
    }
    pub fn from_u128(x: u128) -> Dec {
        Dec {
            neg: false,
            mant: u(x),
            scale: 0,
        }
    }
    pub fn is_zero(&self) -> bool {
        self.mant.is_zero()
    }
    pub fn is_positive(&self) -> bool {
        !self.neg && !self.mant.is_zero()
    }
    /// strip trailing decimal zeros
    pub fn normalized(&self) -> Dec {
        let mut m = self.mant;
        let mut s = self.scale;
        let ten = Uint512::from(10u32);
        while s > 0 && (m % ten).is_zero() {
            m = m / ten;
            s -= 1;
        }
        Dec {
            neg: self.neg && !m.is_zero(),
            mant: m,
            scale: s,
        }
    }
    pub fn mul(&self, o: &Dec) -> Dec {
        let mant = self.mant * o.mant;
        Dec {
            neg: (self.neg != o.neg) && !mant.is_zero(),
            mant,
            scale: self.scale + o.scale,
        }
    }
    pub fn mul_u128(&self, x: u128) -> Dec {
        self.mul(&Dec::from_u128(x))
    }
    pub fn is_integer(&self) -> bool {
        (self.mant % pow10(self.scale)).is_zero()
    }
    /// Some(n) iff the value is a non-negative integer that fits u128
    pub fn as_u128(&self) -> Option<u128> {
        if self.neg || !self.is_integer() {
            return None;
        }
        to_u128(self.mant / pow10(self.scale))
    }
    /// rounded half away from zero; None if negative (and non-zero) or too large
    pub fn round_half_away(&self) -> Option<u128> {
        if self.neg {
            return None;
        }
        let p = pow10(self.scale);
        let two = Uint512::from(2u32);
        to_u128((self.mant * two + p) / (p * two))
    }
    /// true iff the fractional part is exactly one half
    pub fn is_half_tie(&self) -> bool {
        let p = pow10(self.scale);
        let two = Uint512::from(2u32);
        (self.mant * two) % (p * two) == p
    }
    /// Can a 96-bit / 28-digit decimal hold this value exactly?
    pub fn representable(&self) -> bool {
        let n = self.normalized();
        n.scale <= 28 && n.mant < two96()
    }
    pub fn cmp_abs_signed(&self, o: &Dec) -> Ordering {
        // compare as signed values
        match (self.neg, o.neg) {
            (false, true) => return Ordering::Greater,
            (true, false) => return Ordering::Less,
            _ => {}
        }
        let s = self.scale.max(o.scale);
        let a = self.mant * pow10(s - self.scale);
        let b = o.mant * pow10(s - o.scale);
        let c = a.cmp(&b);
        if self.neg {
            c.reverse()
        } else {
            c
        }
    }
    pub fn eq_num(&self, o: &Dec) -> bool {
        self.cmp_abs_signed(o) == Ordering::Equal
    }
    pub fn lt(&self, o: &Dec) -> bool {
        self.cmp_abs_signed(o) == Ordering::Less
    }
    pub fn le(&self, o: &Dec) -> bool {
        self.cmp_abs_signed(o) != Ordering::Greater
    }
    /// sum of two non-negative values
    pub fn add_pos(&self, o: &Dec) -> Dec {
        let sc = self.scale.max(o.scale);
        Dec {
            neg: false,
            mant: self.mant * pow10(sc - self.scale) + o.mant * pow10(sc - o.scale),
            scale: sc,
        }
    }
    /// difference of two non-negative values when it is non-negative
    pub fn sub_pos(&self, o: &Dec) -> Option<Dec> {
        let sc = self.scale.max(o.scale);
        let a = self.mant * pow10(sc - self.scale);
        let b = o.mant * pow10(sc - o.scale);
        if a < b {
            None
        } else {
            Some(Dec {
                neg: false,
                mant: a - b,
                scale: sc,
            })
        }
    }
    /// 10^-k
    pub fn tick(k: u32) -> Dec {
        Dec {
            neg: false,
            mant: Uint512::one(),
            scale: k,
        }
    }
    pub fn to_plain_string(&self) -> String {
        let n = self.normalized();
        let digits = n.mant.to_string();
        let s = n.scale as usize;
        let body = if s == 0 {
            digits
        } else if digits.len() > s {
            format!("{}.{}", &digits[..digits.len() - s], &digits[digits.len() - s..])
        } else {
            format!("0.{}{}", "0".repeat(s - digits.len()), digits)
        };
        if n.neg {
            format!("-{}", body)
        } else {
            body
        }
    }
}

/// The pro-rata quantity E = fee * num / den (den > 0), judged per DESIGN 3.3.
#[derive(Clone, Debug, PartialEq, Eq)]
pub struct ProRata {
    /// E rounded half away from zero
    pub rounded: u128,
    /// E is exactly a half-unit tie
    pub tie: bool,
    /// 100*den*fee >= 10^27: the two-value rule is no longer provably complete and the
    /// rigorous error bound is used instead
    pub wide: bool,
    /// lowest / highest integer accepted
    pub lo: u128,
    pub hi: u128,
}

pub fn prorata(fee: u128, num: u128, den: u128) -> ProRata {
    assert!(den > 0);
    let two = Uint512::from(2u32);
    let n2 = u(fee) * u(num) * two;
    let d2 = u(den) * two;
    let rounded = to_u128((n2 + u(den)) / d2).expect("pro-rata value exceeds u128");
    let tie = n2 % d2 == u(den);
    let wide = u(100) * u(den) * u(fee) >= pow10(27);
    let (lo, hi) = if !wide {
        if tie {
            (rounded.saturating_sub(1), rounded)
        } else {
            (rounded, rounded)
        }
    } else {
        // |r - E| < 0.5 + fee * 10^-26  <=>  |r*den*10^26 - fee*num*10^26| < den*10^26/2 + fee*den
        // evaluated exactly on integers scaled by 2*10^26*den
        let s = pow10(26);
        let e_scaled = u(fee) * u(num) * s * two; // 2*10^26*den * E
        let slack = u(den) * s + u(fee) * u(den) * two; // 2*10^26*den * (0.5 + fee*10^-26)
        let unit = u(den) * s * two; // 2*10^26*den * 1
        // smallest r with r*unit > e_scaled - slack ; largest r with r*unit < e_scaled + slack
        let lo = if e_scaled > slack {
            to_u128((e_scaled - slack) / unit + Uint512::one()).unwrap()
        } else {
            0
        };
        let hi_num = e_scaled + slack;
        let hi = if (hi_num % unit).is_zero() {
            to_u128(hi_num / unit).unwrap().saturating_sub(1)
        } else {
            to_u128(hi_num / unit).unwrap()
        };
        (lo.min(rounded), hi.max(rounded))
    };
    ProRata {
        rounded,
        tie,
        wide,
        lo,
        hi,
    }
}

impl ProRata {
    pub fn allows(&self, x: u128) -> bool {
        self.lo <= x && x <= self.hi
    }
    /// the accepted integers, at most eight of them (callers give no verdict on wider sets)
    pub fn candidates(&self) -> Vec<u128> {
        (self.lo..=self.hi.min(self.lo.saturating_add(7))).collect()
    }
}

#[cfg(test)]
mod tests {
    use super::*;

    #[test]
    fn parse_forms() {
        for (s, m, sc) in [
            ("2", 2u128, 0u32),
            ("2.0", 2, 0),
            ("02.000", 2, 0),
            ("2.50000000000000000000000000000000", 25, 1),
            (".5", 5, 1),
            ("1.", 1, 0),
            ("+3.25", 325, 2),
        ] {
            match parse(s) {
                Parsed::Num(d) => {
                    assert_eq!(d.mant, u(m), "{}", s);
                    assert_eq!(d.scale, sc, "{}", s);
                }
                o => panic!("{} -> {:?}", s, o),
            }
        }
        for s in ["", "abc", "1e5", "1,5", "1..2", " 1", "NaN", ".", "-", "+"] {
            assert_eq!(parse(s), Parsed::Garbage, "{:?}", s);
        }
        assert_eq!(parse("1_000"), Parsed::Unclear);
    }

    #[test]
    fn rounding() {
        let d = match parse("2.5") {
            Parsed::Num(d) => d,
            _ => panic!(),
        };
        assert_eq!(d.round_half_away(), Some(3));
        assert!(d.is_half_tie());
        let p = prorata(9, 5, 6);
        assert_eq!(p.rounded, 8);
        assert!(p.tie);
        assert_eq!((p.lo, p.hi), (7, 8));
        let p = prorata(10, 1, 3);
        assert_eq!((p.rounded, p.tie, p.lo, p.hi), (3, false, 3, 3));
    }
}
