//! Replay driver: re-executes the literal steps of a case file with the observer of
//! one property switched on, bypassing every generator.

use crate::exec::{tables_from_json, Prop, Runner, Step};
use serde_json::Value;

pub fn load(path: &str) -> Result<Value, String> {
    let text = std::fs::read_to_string(path).map_err(|e| format!("{}: {}", path, e))?;
    serde_json::from_str(&text).map_err(|e| format!("{}: {}", path, e))
}

pub fn run_case(prop: Prop, case: &Value, probe_budget: u32) -> Result<Runner, String> {
    let tables = tables_from_json(case.get("tables").unwrap_or(&Value::Null));
    let mut r = Runner::new(prop, tables);
    r.judge.probe_budget = probe_budget;
    r.judge.probe_seed = case.get("probe_seed").and_then(|x| x.as_u64()).unwrap_or(1);
    let steps = case
        .get("steps")
        .and_then(|x| x.as_array())
        .ok_or("steps missing")?;
    for s in steps {
        let st = Step::from_json(s)?;
        r.step(st);
        if prop == Prop::C06 {
            // exits are also probed after seeding steps
            if matches!(r.trace.last(), Some(Step::SeedAsk { .. }) | Some(Step::SeedBid { .. })) {
                let book = r.book();
                if book.cfg.is_some() {
                    let w = r.world.clone();
                    crate::props::probes::exits(&mut r.judge, &w, &book, "seed");
                }
            }
        }
    }
    Ok(r)
}
