#!/usr/bin/env python3
"""Sensitivity harness: apply hand-made mutants of /repo one at a time, run the quick
checks that ought to notice, and revert. Usage: mutants.py [name-substring ...]"""
import subprocess, sys, json, os, time

REPO = "/repo"
C = "src/contract.rs"
M = [
 # name, file, old, new, occurrence index (or None = all), properties expected to fire
 ("expire-guard-checks-approvers", C, "    if !contract_info.executors.contains(&info.sender) {\n        return Err(ContractError::Unauthorized);\n    }\n\n    // retrieve the order", "    if !contract_info.approvers.contains(&info.sender) {\n        return Err(ContractError::Unauthorized);\n    }\n\n    // retrieve the order", None, ["C05"]),
 ("executors-may-cancel-ask", C, "    if !info.sender.eq(&owner) {\n        return Err(ContractError::Unauthorized);\n    }", "    if !info.sender.eq(&owner) && !get_contract_info(deps.storage)?.executors.contains(&info.sender) {\n        return Err(ContractError::Unauthorized);\n    }", None, ["C05"]),
 ("owner-may-expire-bid", C, "    } else if !contract_info.executors.contains(&info.sender) {\n        return Err(ContractError::Unauthorized);\n    }", "    } else if !contract_info.executors.contains(&info.sender) && !info.sender.eq(&bid_order.owner) {\n        return Err(ContractError::Unauthorized);\n    }", None, ["C05"]),
 ("match-size-gt-to-ge-ask", C, "if execute_size.gt(&ask_order.size) || execute_size.gt(&bid_order.get_remaining_base())", "if execute_size.ge(&ask_order.size) && ask_order.size.gt(&Uint128::new(7)) || execute_size.gt(&bid_order.get_remaining_base())", None, ["C03"]),
 ("match-size-bound-uses-original-bid-size", C, "execute_size.gt(&bid_order.get_remaining_base()) {\n        return Err(ContractError::InvalidExecuteSize);", "execute_size.gt(&bid_order.base.amount) {\n        return Err(ContractError::InvalidExecuteSize);", None, ["C03", "C01", "C11"]),
 ("refund-uses-ask-price-as-original", C, "        let original_gross_proceeds = bid_price\n", "        let original_gross_proceeds = ask_price.max(execute_price)\n", None, ["C02", "C01", "C11"]),
 ("bidfee-round-to-even", "src/bid_order.rs", ".round_dp_with_strategy(0, RoundingStrategy::MidpointAwayFromZero)\n                    .to_u128()\n                    .ok_or(ContractError::TotalOverflow)?;\n\n                // the bid fee due", ".round_dp_with_strategy(0, RoundingStrategy::MidpointNearestEven)\n                    .to_u128()\n                    .ok_or(ContractError::TotalOverflow)?;\n\n                // the bid fee due", None, ["C09", "C02"]),
 ("createbid-fee-round-tozero", C, "        .checked_mul(total)\n        .ok_or(ContractError::TotalOverflow)?\n        .round_dp_with_strategy(0, RoundingStrategy::MidpointAwayFromZero)", "        .checked_mul(total)\n        .ok_or(ContractError::TotalOverflow)?\n        .round_dp_with_strategy(0, RoundingStrategy::ToZero)", None, ["C09", "C07"]),
 ("askfee-round-to-even", C, "                .checked_mul(actual_gross_proceeds)\n                .ok_or(ContractError::TotalOverflow)?\n                .round_dp_with_strategy(0, RoundingStrategy::MidpointAwayFromZero)", "                .checked_mul(actual_gross_proceeds)\n                .ok_or(ContractError::TotalOverflow)?\n                .round_dp_with_strategy(0, RoundingStrategy::MidpointNearestEven)", None, ["C09", "C02"]),
 ("reversebid-fee-round-tozero", C, "                .checked_mul(quote_remaining_ratio)\n                .ok_or(ContractError::TotalOverflow)?\n                .round_dp_with_strategy(0, RoundingStrategy::MidpointAwayFromZero)", "                .checked_mul(quote_remaining_ratio)\n                .ok_or(ContractError::TotalOverflow)?\n                .round_dp_with_strategy(0, RoundingStrategy::ToZero)", None, ["C09", "C04"]),
 ("askfee-to-bidfee-account", C, "                        ask_fee_info.account,\n", "                        contract_info.bid_fee_info.as_ref().map(|f| f.account.clone()).unwrap_or(ask_fee_info.account),\n", None, ["C02", "C09"]),
 ("accumulated-fee-not-updated-on-reject", "src/bid_order.rs", "            Action::Reject { base, fee, quote } => {\n                // Update base:\n                self.accumulated_base = self.accumulated_base.checked_add(base.amount)?;\n                // Update fee:\n                if let Some(fee) = fee {\n                    self.accumulated_fee = self.accumulated_fee.checked_add(fee.amount)?;\n                }", "            Action::Reject { base, fee, quote } => {\n                // Update base:\n                self.accumulated_base = self.accumulated_base.checked_add(base.amount)?;\n                // Update fee:\n                if let Some(_fee) = fee {\n                }", None, ["C01", "C04", "C09"]),
 ("bid-saved-under-ask-id-on-match", C, "        BIDS_V3.update(deps.storage, bid_id.as_bytes(), |_| -> StdResult<_> {", "        BIDS_V3.update(deps.storage, ask_id.as_bytes(), |_| -> StdResult<_> {", None, ["C11", "C01"]),
 ("duplicate-id-check-on-wrong-map", C, "    if ASKS_V1\n        .may_load(deps.storage, ask_order.id.as_bytes())?\n        .is_some()", "    if BIDS_V3\n        .may_load(deps.storage, ask_order.id.as_bytes())\n        .unwrap_or(None)\n        .is_some()", None, ["C07", "C11"]),
 ("approve-allowed-twice", C, "                                return Err(ContractError::AskOrderReady {\n                                    approver: approver.to_string(),\n                                })", "                                let _ = approver;", None, ["C08"]),
 ("approve-size-check-dropped", C, "if size.ne(&stored_ask_order.size) || base.ne(&contract_info.base_denom) {", "if size.gt(&stored_ask_order.size) || base.ne(&contract_info.base_denom) {", None, ["C08"]),
 ("order-open-computed-before-update", C, "    // remove the bid order from storage if remaining size is 0, otherwise, store updated order\n    match bid_order.get_remaining_base().is_zero() {", "    // remove the bid order from storage if remaining size is 0, otherwise, store updated order\n    match bid_order.get_remaining_base().is_zero() && cancel_size.is_none() {", None, ["C17", "C11", "C04"]),
 ("reverse-size-reports-request", C, "        attr(\"reverse_size\", effective_cancel_size),\n    ]);\n\n    // add 'send fee back to owner' message", "        attr(\"reverse_size\", cancel_size.unwrap_or(bid_order.base.amount)),\n    ]);\n\n    // add 'send fee back to owner' message", None, ["C17"]),
 ("approver-superset-skipped-when-only-bids", "src/execute/modify_contract.rs", "    if contains_ask || contains_bid {\n        match &approvers {", "    if contains_ask {\n        match &approvers {", None, ["C12"]),
 ("fee-rate-freeze-compares-strings", "src/execute/modify_contract.rs", "                        current_fee_rate_dec.ne(&new_fee_rate_dec)", "                        let _ = (current_fee_rate_dec, new_fee_rate_dec);\n                        current_fee.rate.len().ne(&new_fee_rate_str.len())", None, ["C12"]),
 ("precision-rule-mod-to-div", C, "if (msg.size_increment.u128() % 10u128.pow(msg.price_precision.u128() as u32)).ne(&0) {", "if (msg.size_increment.u128() / 10u128.pow(msg.price_precision.u128() as u32)).eq(&0) {", None, ["C13"]),
 ("migration-window-upper-bound", "src/bid_order.rs", "\">=0.16.2, <0.19.1\"", "\">=0.16.2, <0.19.0\"", None, ["C15"]),
 ("conversion-drops-refund-quote", "src/bid_order.rs", "                Action::Refund { quote, .. } => quote.amount,\n                Action::Reject { quote, .. } => quote.amount,", "                Action::Refund { .. } => Uint128::zero(),\n                Action::Reject { quote, .. } => quote.amount,", None, ["C15"]),
 ("migrate-min-version-lowered", "src/contract_info.rs", "    require_version(\">=0.16.2\", &current_version)?;\n\n    let mut contract_info", "    require_version(\">=0.15.0\", &current_version)?;\n\n    let mut contract_info", None, ["C14"]),
 ("migrate-drops-bid-attrs-override", "src/contract_info.rs", "    match &msg.bid_required_attributes {\n        None => {}\n        Some(bid_required_attributes) => {\n            contract_info.bid_required_attributes = bid_required_attributes.clone();", "    match &msg.bid_required_attributes {\n        None => {}\n        Some(bid_required_attributes) => {\n            contract_info.bid_required_attributes.extend(bid_required_attributes.clone());", 0, ["C14"]),
 ("get-bid-reads-ask-map-on-miss", C, "            return to_binary(&BIDS_V3.load(deps.storage, id.as_bytes())?);", "            if let Ok(b) = BIDS_V3.load(deps.storage, id.as_bytes()) { return to_binary(&b); }\n            return to_binary(&ASKS_V1.load(deps.storage, id.as_bytes())?);", None, ["C16"]),
 ("match-reports-bid-price", C, "        attr(\"price\", &execute_price.to_string()),", "        attr(\"price\", &bid_price.to_string()),", None, ["C17"]),
 ("create-ask-skips-lot-check-for-convertible", C, "    if (ask_order.size.u128() % contract_info.size_increment.u128()).ne(&0) {", "    if ask_order.base.eq(&contract_info.base_denom) && (ask_order.size.u128() % contract_info.size_increment.u128()).ne(&0) {", None, ["C07"]),
 ("restricted-create-bid-pulls-quote-without-fee", C, "                Some(fees) => (bid_order.quote.amount + fees.amount).into(),", "                Some(_fees) => bid_order.quote.amount.into(),", None, ["C01", "C07"]),
 ("cancel-ask-uses-bank-for-converted-base", C, "            is_convertible_restricted_marker,\n            converted_base.amount.into(),", "            false,\n            converted_base.amount.into(),", None, ["C10"]),
 ("modify-allows-empty-ask-attrs-with-asks", "src/execute/modify_contract.rs", "            Some(_) => {\n                return Err(ContractError::InvalidFields {\n                    fields: vec![error_field_name],\n                });", "            Some(v) if !v.is_empty() => {\n                return Err(ContractError::InvalidFields {\n                    fields: vec![error_field_name],\n                });\n            }\n            Some(_) => {", None, ["C12"]),
]

def sh(cmd, **kw):
    return subprocess.run(cmd, shell=True, capture_output=True, text=True, **kw)

def main():
    want = sys.argv[1:]
    results = []
    for name, f, old, new, idx, props in M:
        if want and not any(w in name for w in want):
            continue
        path = os.path.join(REPO, f)
        src = open(path).read()
        n = src.count(old)
        if n == 0:
            results.append((name, "PATTERN-NOT-FOUND", {})); print(name, "PATTERN NOT FOUND"); continue
        if idx is None:
            mutated = src.replace(old, new)
        else:
            parts = src.split(old)
            mutated = old.join(parts[:idx+1]) + new + old.join(parts[idx+1:])
        open(path, "w").write(mutated)
        try:
            t = sh(f"cd {REPO} && cargo test --workspace --no-fail-fast --offline 2>&1 | grep -E '^test result' | head -1")
            suite = t.stdout.strip()
            fired = {}
            for p in props:
                r = sh(f"cd /verif && ./check {p} --tier quick")
                sig = [l.strip()[:160] for l in r.stdout.splitlines() if l.strip().startswith("[")][:1]
                fired[p] = (r.returncode, sig)
            results.append((name, suite, fired))
            print(name, "|", suite, "|", {p: v[0] for p, v in fired.items()}, flush=True)
            for p, v in fired.items():
                if v[1]: print("     ", p, v[1][0])
        finally:
            sh(f"cd {REPO} && git checkout -- .")
    json.dump(results, open("/verif/out/mutants_last.json", "w"), indent=1)

if __name__ == "__main__":
    main()
