#!/bin/bash
# silence soak: every quick check over a range of seeds; prints only failures
FROM=${1:-100}; TO=${2:-140}; TIER=${3:-quick}
cd "$(dirname "$0")/.."
# when run under `vp run --with-repo`, build against the repository snapshot so that mutant
# experiments on /repo do not disturb the soak
if [ -n "${VP_RUN_REPO:-}" ]; then
  sed -i "s#path = \"/repo\"#path = \"$VP_RUN_REPO\"#" harness/Cargo.toml
  export ATSV_REPO="$VP_RUN_REPO"
fi
for seed in $(seq $FROM $TO); do
  for p in C01 C02 C03 C04 C05 C06 C07 C08 C09 C10 C11 C12 C13 C14 C15 C16 C17; do
    out=$(VERIF_SEED=$seed ATSV_NO_FUZZ=1 ./check $p --tier $TIER 2>&1); rc=$?
    if [ $rc -ne 0 ]; then echo "ALARM seed=$seed $p rc=$rc"; echo "$out" | tail -5 | cut -c1-900; cp -r out/violations "out/violations-soak-$seed-$p" 2>/dev/null; fi
  done
  echo "seed $seed done $(date +%T)"
done
