#!/usr/bin/env python3
"""Regenerate the seeded-change table of DESIGN.md Appendix B.5 from seeded/*/meta.json."""
import json, glob, re
p = '/verif/DESIGN.md'
s = open(p).read()
rows = []
for d in sorted(glob.glob('/verif/seeded/*/meta.json')):
    m = json.load(open(d))
    note = ' (see note)' if m.get('note') else ''
    partial = f" (of {len(m['checks_quick'])} run)" if m.get('checks_not_run') else ''
    rows.append(f"| {m['name']} | {m['property']} | {(', '.join(m['caught_by']) or 'none' + note) + partial} |")
table = "| seeded change | aimed at | quick checks that report it |\n|---|---|---|\n" + "\n".join(rows) + "\n"
start = s.index("| seeded change | aimed at | quick checks that report it |")
end = s.index("\nC14_a changes only the bid-conversion scan")
s = s[:start] + table + s[end:]
open(p, 'w').write(s)
print(len(rows), "rows")
