#!/usr/bin/env python3
"""Confirm a sub-agent's seeded change in its scratch worktree, file it under
/verif/seeded/<name>/ and run the checks against it.
usage: seeded.py <name> <property> <worktree> <patch.diff> <demo.diff> <meta.txt> [--checks C01,C02,...]"""
import subprocess, sys, json, os, re, shutil

def sh(cmd, cwd=None):
    return subprocess.run(cmd, shell=True, capture_output=True, text=True, cwd=cwd)

def suite(cwd):
    r = sh("cargo test --offline --no-fail-fast 2>&1 | grep -E '^test result'", cwd)
    lines = r.stdout.strip().splitlines()
    passed = sum(int(re.search(r"(\d+) passed", l).group(1)) for l in lines)
    failed = sum(int(re.search(r"(\d+) failed", l).group(1)) for l in lines)
    return passed, failed, lines

def main():
    name, prop, wt, patch, demo, meta = sys.argv[1:7]
    checks = None
    if "--checks" in sys.argv:
        checks = sys.argv[sys.argv.index("--checks") + 1].split(",")
    out = {"name": name, "property": prop}
    # 1. confirm in the scratch worktree
    sh("git reset -q --hard HEAD && git clean -fdq -e target", wt)
    a = sh(f"git apply {patch}", wt)
    if a.returncode != 0:
        print("patch does not apply:", a.stderr); sys.exit(1)
    p1 = suite(wt)
    out["suite_with_patch"] = {"passed": p1[0], "failed": p1[1]}
    a = sh(f"git apply {demo}", wt)
    if a.returncode != 0:
        print("demo does not apply:", a.stderr); sys.exit(1)
    p2 = suite(wt)
    out["demo_with_patch"] = {"passed": p2[0], "failed": p2[1]}
    sh(f"git apply -R {patch}", wt)
    p3 = suite(wt)
    out["demo_without_patch"] = {"passed": p3[0], "failed": p3[1]}
    ok = p1[1] == 0 and p1[0] >= 182 and p2[1] > 0 and p3[1] == 0
    out["confirmed"] = ok
    print("confirm:", out)
    sh("git reset -q --hard HEAD && git clean -fdq -e target", wt)
    if not ok:
        sys.exit(1)
    # 2. file it
    d = f"/verif/seeded/{name}"
    os.makedirs(d, exist_ok=True)
    shutil.copy(patch, f"{d}/patch.diff")
    shutil.copy(demo, f"{d}/demo.diff")
    desc = open(meta).read()
    # 3. run the checks against it
    a = sh(f"git -C /repo apply {d}/patch.diff")
    if a.returncode != 0:
        print("patch does not apply to /repo:", a.stderr); sys.exit(1)
    fired = {}
    try:
        ids = checks or [f"C{i:02d}" for i in range(1, 18)]
        for c in ids:
            r = sh(f"./check {c} --tier quick", "/verif")
            sig = [l.strip()[:220] for l in r.stdout.splitlines() if l.strip().startswith("[")][:2]
            fired[c] = {"exit": r.returncode, "first": sig}
            print(c, r.returncode, sig[:1], flush=True)
    finally:
        sh("git -C /repo checkout -- .")
    out["checks_quick"] = fired
    out["caught_by"] = [c for c, v in fired.items() if v["exit"] == 1]
    out["description_from_author"] = desc
    out["ran"] = ["cargo test --offline --no-fail-fast (scratch worktree: patch only / patch+demo / demo only)", "git -C /repo apply patch.diff; ./check <ID> --tier quick for each listed check; git -C /repo checkout -- ."]
    json.dump(out, open(f"{d}/meta.json", "w"), indent=1)
    print("caught by:", out["caught_by"])

main()
