#!/usr/bin/env python3
"""Regression of the checks against every filed seeded change: apply patch.diff to /repo, run the
quick check of the property it was aimed at (and of the property noted as catching it instead),
revert. Prints the changes that are no longer reported."""
import json, glob, subprocess, sys
def sh(c): return subprocess.run(c, shell=True, capture_output=True, text=True)
missed = []
for d in sorted(glob.glob('/verif/seeded/*/meta.json')):
    m = json.load(open(d))
    name, prop = m['name'], m['property']
    if m.get('breaks_property_under_chain_rollback') is False:
        continue
    targets = [prop] if prop in m['caught_by'] else m['caught_by'][:1]
    a = sh(f"git -C /repo apply /verif/seeded/{name}/patch.diff")
    if a.returncode != 0:
        print(name, "patch does not apply", a.stderr[:200]); continue
    try:
        for t in targets:
            r = sh(f"cd /verif && ./check {t} --tier quick")
            ok = r.returncode == 1
            print(name, t, "caught" if ok else f"MISSED rc={r.returncode}", flush=True)
            if not ok: missed.append((name, t))
    finally:
        sh("git -C /repo checkout -- .")
print("missed:", missed)
