#!/usr/bin/env python3
"""Second half of seeded.py for rounds whose confirmation (patch only / patch+demo / demo only in
the scratch worktree) was run in parallel beforehand (result in /tmp/seed/<prop>_confirm.json):
file the change under /verif/seeded/<name>/ and run the listed quick checks against it in /repo.
usage: seeded2.py <name> <property> [--checks C01,C02,...]   (default: all 17)"""
import subprocess, sys, json, os, shutil

def sh(cmd, cwd=None):
    return subprocess.run(cmd, shell=True, capture_output=True, text=True, cwd=cwd)

def main():
    name, prop = sys.argv[1:3]
    ids = [f"C{i:02d}" for i in range(1, 18)]
    if "--checks" in sys.argv:
        ids = sys.argv[sys.argv.index("--checks") + 1].split(",")
    src = f"/tmp/seed/{prop}"
    d = f"/verif/seeded/{name}"
    mp = f"{d}/meta.json"
    if os.path.exists(mp):
        out = json.load(open(mp))
    else:
        out = {"name": name, "property": prop}
        out.update(json.load(open(f"{src}_confirm.json")))
        if not out["confirmed"]:
            print("not confirmed"); sys.exit(1)
        os.makedirs(d, exist_ok=True)
        shutil.copy(f"{src}_patch.diff", f"{d}/patch.diff")
        shutil.copy(f"{src}_demo.diff", f"{d}/demo.diff")
        out["description_from_author"] = open(f"{src}_meta.txt").read()
        out["checks_quick"] = {}
    a = sh(f"git -C /repo apply {d}/patch.diff")
    if a.returncode != 0:
        print("patch does not apply to /repo:", a.stderr); sys.exit(1)
    try:
        for c in ids:
            r = sh(f"./check {c} --tier quick", "/verif")
            sig = [l.strip()[:220] for l in r.stdout.splitlines() if l.strip().startswith("[")][:2]
            out["checks_quick"][c] = {"exit": r.returncode, "first": sig}
            print(name, c, r.returncode, sig[:1], flush=True)
    finally:
        sh("git -C /repo checkout -- .")
    out["checks_quick"] = dict(sorted(out["checks_quick"].items()))
    out["caught_by"] = [c for c, v in out["checks_quick"].items() if v["exit"] == 1]
    out["checks_not_run"] = [f"C{i:02d}" for i in range(1, 18) if f"C{i:02d}" not in out["checks_quick"]]
    out["ran"] = ["cargo test --offline --no-fail-fast (scratch worktree: patch only / patch+demo / demo only)", "git -C /repo apply patch.diff; ./check <ID> --tier quick for each listed check; git -C /repo checkout -- ."]
    json.dump(out, open(mp, "w"), indent=1)
    print(name, "caught by:", out["caught_by"], flush=True)

main()
